(* C06, second clause, the recursion: by induction on the fuel of the TRSO model. *)
From Coq Require Import List Bool Arith Permutation Lia.
From Y0 Require Import Base.ListSet Graph.Closure Graph.MixedGraph Graph.DSep Graph.CondInd
  Dsl.Syntax Dsl.Text Dsl.Build Dsl.Canon Alg.Id Alg.Trso Alg.Vocab
  Proofs.ClosureP Proofs.SurgeryP Proofs.DistrictsP Proofs.SortP Proofs.ExprP Proofs.AtomsP Proofs.VocabP Proofs.StarVocabP Proofs.TrsoVocabP.
Import ListNotations.

Lemma lookup_In {T} k (l : list (nat * T)) v : lookup k l = Some v -> In (k, v) l.
Proof.
  unfold lookup. destruct (find _ l) as [[k' v']|] eqn:Ef; [|discriminate]. cbn. intros E. injection E as <-.
  apply find_some in Ef. destruct Ef as [Hin Hk]. cbn in Hk. apply Nat.eqb_eq in Hk. subst. exact Hin.
Qed.

Lemma update_In {T} k (v : T) l k' v' : In (k', v') (update k v l) -> (k' = k /\ v' = v) \/ In (k', v') l.
Proof.
  unfold update. destruct (existsb _ l).
  - intros Hin. apply in_map_iff in Hin. destruct Hin as [[k0 v0] [E Hin]]. cbn [fst] in E. destruct (Nat.eqb k0 k) eqn:Ek.
    + injection E as <- <-. left. auto.
    + injection E as <- <-. right. exact Hin.
  - intros Hin. apply in_app_iff in Hin. destruct Hin as [Hin|[E|[]]]; [right; exact Hin|injection E as <- <-; left; auto].
Qed.

Lemma mul_err_l a b : is_err a = true -> is_err (mul a b) = true.
Proof. destruct a; try discriminate. intros _. destruct b; reflexivity. Qed.
Lemma mul_err_r a b : is_err b = true -> is_err (mul a b) = true.
Proof. destruct b; try discriminate. intros _. destruct a; reflexivity. Qed.

Lemma forallb_false_ex_local {T} (p : T -> bool) l : forallb p l = false -> exists x, In x l /\ p x = false.
Proof.
  induction l as [|a t IH]; [discriminate|]. cbn [forallb]. destruct (p a) eqn:E; cbn [andb]; intros H.
  - destruct (IH H) as [x [Hx Hp]]. exists x. split; [right; exact Hx|exact Hp].
  - exists a. split; [left; reflexivity|exact E].
Qed.

Section TrsoRec.
  Variable N : list nat.                  (* the user's nodes: none of them in the range of selection-node names *)
  Variable S0 : list (nat * list nat).
  Variable topo : mg nat -> option (list nat).
  Hypothesis N_regular : forall n, In n N -> is_transport_node n = false.

  Notation pv := (plain_var N).
  Let N' := N ++ seq 50 10.               (* with the selection nodes *)

  Lemma regular_in_N n : In n N' -> is_transport_node n = false -> In n N.
  Proof.
    unfold N'. rewrite in_app_iff, in_seq. intros [H|H] Hr; [exact H|]. exfalso. unfold is_transport_node in Hr.
    apply andb_false_iff in Hr. destruct Hr as [Hr|Hr]; [apply Nat.leb_gt in Hr|apply Nat.ltb_ge in Hr]; lia.
  Qed.

  Lemma regular_nodes_N g : closedN N' g -> incl (get_regular_nodes g) N.
  Proof.
    intros [Hn _] v Hv. unfold get_regular_nodes in Hv. apply filter_In in Hv. destruct Hv as [Hv Hr]. apply negb_true_iff in Hr.
    apply regular_in_N; [apply Hn; exact Hv|exact Hr].
  Qed.

  Lemma Vs_pv l : incl l N -> forallb pv (Vs l) = true.
  Proof. apply plain_vars_Vs. Qed.

  Definition Kq (q : tq) : list nat := if is_nil (tact q) then [TARGET] else [TARGET; tdom q].
  Definition AQ (q : tq) : option var -> list var -> list var -> bool :=
    if is_nil (tact q) then A_tr N S0 else A_pl N [TARGET; tdom q].

  Record Pre (q : tq) : Prop := {
    pre_level : (tact q = [] /\ tdom q = TARGET) \/
                (tact q <> [] /\ tdom q <> TARGET /\ exists Sd, lookup (tdom q) S0 = Some Sd /\ incl (tact q) Sd);
    pre_expr : PA (A_pl N (Kq q)) pv (texpr q) = true;
    pre_graphs : forall d g', In (d, g') (tgraphs q) -> closedN N' g';
    pre_surr : tsurr q = S0 \/ tsurr q = [];
    pre_Y : incl (tY q) N'
  }.

  Definition Postr (A : option var -> list var -> list var -> bool) (r : trso_result) : Prop :=
    match r with ROk (Some e) => PA A pv e = true | _ => True end.

  Lemma AQ_sub q pop ch ch' : AQ q pop ch [] = true -> incl ch' ch -> NoDup ch' -> ch' <> [] -> AQ q pop ch' [] = true.
  Proof. unfold AQ. destruct (is_nil (tact q)); [apply A_tr_sub|apply A_pl_sub]. Qed.
  Lemma AQ_perm q pop ch ch' pa pa' : Permutation ch ch' -> Permutation pa pa' -> AQ q pop ch pa = true -> AQ q pop ch' pa' = true.
  Proof. unfold AQ. destruct (is_nil (tact q)); [apply A_tr_perm|apply A_pl_perm]. Qed.
  Lemma Kq_AQ q pop ch pa : A_pl N (Kq q) pop ch pa = true -> AQ q pop ch pa = true.
  Proof. unfold Kq, AQ. destruct (is_nil (tact q)); [apply A_pl_target|exact (fun h => h)]. Qed.
  Lemma tdom_in_Kq q : Pre q -> In (tdom q) (Kq q).
  Proof.
    intros [[[Ht Hd]|[Ht _]] _ _ _]; unfold Kq.
    - rewrite Ht. cbn. left. symmetry. exact Hd.
    - destruct (tact q); [congruence|]. cbn. right. left. reflexivity.
  Qed.

  (* same level: only the four fields below matter *)
  Lemma AQ_same q q' : tact q' = tact q -> tdom q' = tdom q -> AQ q' = AQ q.
  Proof. intros H1 H2. unfold AQ. rewrite H1, H2. reflexivity. Qed.
  Lemma Kq_same q q' : tact q' = tact q -> tdom q' = tdom q -> Kq q' = Kq q.
  Proof. intros H1 H2. unfold Kq. rewrite H1, H2. reflexivity. Qed.

  Notation PAq q := (PA (AQ q) pv).
  Notation PAk q := (PA (A_pl N (Kq q)) pv).

  Lemma PAk_PAq q e : PAk q e = true -> PAq q e = true.
  Proof. apply PA_mono. apply Kq_AQ. Qed.

  Lemma canon_q q e : PAq q e = true -> PAq q (canon e) = true.
  Proof. intros H. unfold canon. apply (PA_canonicalize_top (AQ q) pv (pv_not_bad N) (AQ_sub q) (AQ_perm q)). exact H. Qed.

  Lemma ok_expr_post q e : PAq q e = true -> Postr (AQ q) (ok_expr e).
  Proof. intros H. unfold ok_expr. destruct e; try exact H. exact I. Qed.

  Lemma c14n_post q r : Postr (AQ q) r -> Postr (AQ q) (c14n r).
  Proof.
    intros H. unfold c14n. destruct r as [[e|]| |]; try exact H. cbn [Postr] in H. pose proof (canon_q q e H) as Hc.
    destruct (canon e); try exact Hc. exact I.
  Qed.

  Lemma sum_q q e l : PAq q e = true -> incl l N -> PAq q (sum_safe e (Vs l) false) = true.
  Proof. intros He Hl. apply PA_sum_safe_plain; [exact (pv_not_bad N)|exact He|apply Vs_pv; exact Hl]. Qed.

  Lemma index_nat_In' v l i : index_nat v l = Some i -> In v l.
  Proof.
    revert i. induction l as [|x t IH]; intros i H; [discriminate|]. cbn [index_nat] in H. destruct (Nat.eqb x v) eqn:E.
    - apply Nat.eqb_eq in E. left. exact E.
    - destruct (index_nat v t); [|discriminate]. right. eapply IH. reflexivity.
  Qed.

  Lemma topo_regular g o : closedN N' g -> is_topo g o = true -> incl (filter (fun n => negb (is_transport_node n)) o) N.
  Proof.
    intros [Hn _] Ho v Hv. apply filter_In in Hv. destruct Hv as [Hv Hr]. apply negb_true_iff in Hr. apply regular_in_N; [|exact Hr].
    unfold is_topo in Ho. rewrite !andb_true_iff in Ho. destruct Ho as [[_ Hs] _]. apply set_eqb_equiv in Hs. apply Hn. apply Hs. exact Hv.
  Qed.

  Lemma fold_mul_PA q (factor : nat -> expr) l : (forall n, PAq q (factor n) = true) ->
    forall acc, PAq q acc = true -> PAq q (fold_left (fun acc node => mul acc (factor node)) l acc) = true.
  Proof.
    intros Hf. induction l as [|n t IH]; intros acc Hacc; [exact Hacc|]. cbn [fold_left]. apply IH. apply PA_mul; [exact Hacc|apply Hf].
  Qed.

  Lemma fold_mul_err (factor : nat -> expr) l : forall acc,
    is_err acc = true \/ (exists n, In n l /\ is_err (factor n) = true) ->
    is_err (fold_left (fun acc node => mul acc (factor node)) l acc) = true.
  Proof.
    induction l as [|n t IH]; intros acc H; cbn [fold_left].
    - destruct H as [H|[n [[] _]]]. exact H.
    - apply IH. destruct H as [H|[m [[<-|Hm] He]]].
      + left. apply mul_err_l. exact H.
      + left. apply mul_err_r. exact He.
      + right. exists m. auto.
  Qed.

  (* line 9 *)
  Lemma line9_post q g dw : Pre q -> closedN N' g -> incl dw N' -> Postr (AQ q) (trso_line9 topo q g dw).
  Proof.
    intros HP Hg Hdw. unfold trso_line9. destruct (is_zero (texpr q)); [exact I|].
    unfold with_topo. destruct (topo g) as [o|]; [|exact I]. destruct (is_topo g o) eqn:Eo; [|exact I].
    set (ordering := filter (fun n => negb (is_transport_node n)) o).
    assert (Hord : incl ordering N) by (apply topo_regular with (g := g); assumption).
    pose proof (PAk_PAq q _ (pre_expr q HP)) as He.
    set (factor := fun node : nat => match index_nat node ordering with
                                     | None => EErr ValueError
                                     | Some i => truediv (sum_safe (texpr q) (Vs (skipn (S i) ordering)) false) (sum_safe (texpr q) (Vs (skipn i ordering)) false)
                                     end).
    assert (Hfac : forall n, PAq q (factor n) = true).
    { intros n. unfold factor. destruct (index_nat n ordering) as [i|]; [|reflexivity].
      apply PA_truediv; apply sum_q; try exact He; intros x Hx; apply Hord; eapply skipn_incl_local; exact Hx. }
    set (product := fold_left (fun acc node => mul acc (factor node)) dw EOne).
    assert (Hprod : PAq q product = true) by (apply fold_mul_PA; [exact Hfac|reflexivity]).
    set (simplified := match product with EFrac _ _ => frac_simplify product | ESum e rs => sum_simplify e rs | EErr k => EErr k | _ => EErr AttributeError end).
    assert (Hsimp : PAq q simplified = true).
    { unfold simplified. destruct product as [| |e' rs'|n' d'| | | |kk] eqn:Epr; try reflexivity.
      - unfold PA in Hprod. cbn [is_err all_atoms orb] in Hprod. apply andb_true_iff in Hprod. destruct Hprod as [H1 H2].
        apply (PA_sum_simplify (AQ q) pv (pv_not_bad N) (AQ_sub q)); [apply PA_of_atoms; exact H1|exact H2].
      - apply (PA_frac_simplify (AQ q) pv). exact Hprod. }
    change (Postr (AQ q) (ok_expr (sum_safe simplified (Vs (diff dw (tY q))) false))).
    destruct (forallb (fun n => negb (is_transport_node n)) dw) eqn:Ereg.
    - apply ok_expr_post. apply sum_q; [exact Hsimp|]. intros x Hx. apply In_diff in Hx. destruct Hx as [Hx _].
      rewrite forallb_forall in Ereg. apply regular_in_N; [apply Hdw; exact Hx|apply negb_true_iff; apply Ereg; exact Hx].
    - (* a selection node in the district has no factor: the product is an error value *)
      assert (Herr : is_err product = true).
      { apply fold_mul_err. right. apply forallb_false_ex_local in Ereg. destruct Ereg as [n [Hn Ht]]. exists n. split; [exact Hn|].
        unfold factor. destruct (index_nat n ordering) as [i|] eqn:Ei; [|reflexivity]. exfalso.
        apply index_nat_In' in Ei. apply filter_In in Ei. destruct Ei as [_ Ei]. congruence. }
      assert (Hserr : is_err simplified = true) by (unfold simplified; destruct product; try discriminate; reflexivity).
      unfold sum_safe, sum_safe_gen. rewrite Hserr. unfold ok_expr. destruct simplified; try discriminate. exact I.
  Qed.

  Lemma A_pl_new q ch pa : Pre q -> ch <> [] -> forallb pv ch = true -> forallb pv pa = true ->
    A_pl N (Kq q) (Some (V (tdom q))) ch pa = true.
  Proof. intros HP Hne Hc Hp. apply A_pl_spec. split; [exists (tdom q); split; [reflexivity|apply tdom_in_Kq; exact HP]|auto]. Qed.

  Lemma canon_k q e : PAk q e = true -> PAk q (canon e) = true.
  Proof.
    intros H. unfold canon.
    apply (PA_canonicalize_top (A_pl N (Kq q)) pv (pv_not_bad N) (A_pl_sub N (Kq q)) (A_pl_perm N (Kq q))). exact H.
  Qed.

  (* line 10: the new distribution is a product of plain conditional terms of the active domain *)
  Lemma line10_pre q g td new_surr o : Pre q -> closedN N' g -> incl td N' -> is_topo g o = true ->
    (new_surr = S0 \/ new_surr = []) -> Pre (trso_line10 q g td new_surr o).
  Proof.
    intros HP Hg Htd Ho Hs. pose proof HP as [Hl He Hgr Hsu HY]. unfold trso_line10.
    set (ordering := filter (fun n => negb (is_transport_node n)) o).
    assert (Hord : incl ordering N) by (apply topo_regular with (g := g); assumption).
    constructor; cbn [tact tdom texpr tgraphs tsurr tY].
    - exact Hl.
    - match goal with |- PA (A_pl N (Kq ?q')) _ _ = true => change (Kq q') with (Kq q) end. apply canon_k. apply PA_prod_safe. apply forallb_forall. intros e' He'.
      apply in_map_iff in He'. destruct He' as [node [<- _]]. fold ordering.
      destruct (index_nat node ordering) as [i|] eqn:Ei; [|reflexivity].
      destruct (is_marginal_of_joint (texpr q)).
      2:{ (* derived from the carried distribution *)
          apply PA_truediv; apply (PA_sum_safe_plain (A_pl N (Kq q)) pv (pv_not_bad N)); try exact He; apply Vs_pv; intros x Hx.
          - apply Hord. eapply skipn_incl_local. exact Hx.
          - destruct Hx as [<-|Hx]; [apply Hord; eapply index_nat_In'; exact Ei|apply Hord; eapply skipn_incl_local; exact Hx]. }
      unfold prob_safe, dist_safe. cbn [fst snd]. unfold prob_raw.
      match goal with |- PA _ _ (match ?c with [] => _ | _ => _ end) = true => destruct c as [|c0 ct] eqn:Ec; [reflexivity|rewrite <- Ec] end.
      apply PA_of_atoms. cbn [all_atoms]. apply A_pl_new; [exact HP|rewrite Ec; discriminate| |].
      + unfold sorted_variables. eapply forallb_perm'; [apply stable_sort_perm|]. apply forallb_app_intro'.
        * eapply forallb_perm'; [apply stable_sort_perm|]. reflexivity.
        * cbn [forallb]. rewrite andb_true_r. apply plain_var_V. apply Hord. eapply index_nat_In'. exact Ei.
      + unfold sorted_variables. eapply forallb_perm'; [apply stable_sort_perm|]. apply forallb_app_intro'.
        * apply forallb_upgrade'. apply Vs_pv. intros x Hx. apply Hord. eapply firstn_incl_local. exact Hx.
        * eapply forallb_perm'; [apply stable_sort_perm|]. reflexivity.
    - intros d g' Hin. apply update_In in Hin. destruct Hin as [[_ ->]|Hin]; [apply closed_subgraph; assumption|eapply Hgr; exact Hin].
    - exact Hs.
    - exact HY.
  Qed.

  (* line 2 *)
  Lemma line2_pre q g anc q' : Pre q -> closedN N' g -> trso_line2 q g anc = Some q' -> Pre q' /\ tact q' = tact q /\ tdom q' = tdom q.
  Proof.
    intros HP Hg H2. pose proof HP as [Hl He Hgr Hsu HY]. unfold trso_line2 in H2.
    destruct (forallb _ (tgraphs q)); [|discriminate]. injection H2 as <-. split; [|split; reflexivity].
    constructor; cbn [tact tdom texpr tgraphs tsurr tY].
    - exact Hl.
    - match goal with |- PA (A_pl N (Kq ?q')) _ _ = true => change (Kq q') with (Kq q) end.
      assert (Hs : PAk q (sum_safe (texpr q) (Vs (diff (get_regular_nodes g) anc)) true) = true).
      { apply (PA_sum_safe_gen (A_pl N (Kq q)) pv (pv_not_bad N) (A_pl_sub N (Kq q))); [exact He|].
        apply Vs_pv. intros x Hx. apply In_diff in Hx. apply (regular_nodes_N g Hg). tauto. }
      destruct (sum_safe (texpr q) (Vs (diff (get_regular_nodes g) anc)) true) as [[p|] ch pa| | | | | | |] eqn:Es; try exact Hs; try reflexivity.
      unfold PA in Hs. cbn in Hs. apply A_pl_spec in Hs. destruct Hs as [_ [Hne [Hc _]]].
      unfold prob_raw. destruct ch as [|c0 ct] eqn:Ech; [congruence|]. rewrite <- Ech in *. apply PA_of_atoms. cbn [all_atoms].
      apply A_pl_new; [exact HP|exact Hne|exact Hc|reflexivity].
    - intros d g' Hin. apply in_map_iff in Hin. destruct Hin as [[d0 g0] [E Hin]]. cbn [fst snd] in E. injection E as <- <-.
      apply closed_subgraph; [eapply Hgr; exact Hin|]. apply ancestors_closed; [eapply Hgr; exact Hin|exact HY].
    - exact Hsu.
    - exact HY.
  Qed.

  Lemma Postr_same q q' r : tact q' = tact q -> tdom q' = tdom q -> Postr (AQ q') r -> Postr (AQ q) r.
  Proof. intros H1 H2. rewrite (AQ_same q q' H1 H2). exact (fun h => h). Qed.

  Theorem trso_vocab_rec fuel : forall q, Pre q -> Postr (AQ q) (trso topo fuel q).
  Proof.
    induction fuel as [|f IH]; intros q HP; [exact I|]. cbn [trso].
    destruct (lookup (tdom q) (tgraphs q)) as [g|] eqn:Eg; [|exact I].
    pose proof HP as [Hl He Hgr Hsu HY].
    assert (Hg : closedN N' g) by (eapply Hgr; apply lookup_In; exact Eg).
    pose proof (PAk_PAq q _ He) as Heq.
    destruct (tX q) as [|x0 xt] eqn:EX.
    { apply ok_expr_post. apply canon_q. apply sum_q; [exact Heq|]. intros v Hv. apply In_diff in Hv. apply (regular_nodes_N g Hg). tauto. }
    rewrite <- EX. clear EX x0 xt.
    destruct (negb (ancestors_ok g (tY q))); [exact I|].
    destruct (negb (is_nil (diff (get_regular_nodes g) (ancestors_inclusive g (tY q))))).
    { destruct (trso_line2 q g (ancestors_inclusive g (tY q))) as [q'|] eqn:E2; [|exact I].
      destruct (line2_pre q g _ q' HP Hg E2) as [HP' [Ht Hd]].
      destruct (is_err (texpr q')) eqn:Eerr; [unfold ok_expr; destruct (texpr q'); try discriminate; exact I|].
      apply c14n_post. apply (Postr_same q q' _ Ht Hd). apply IH. exact HP'. }
    destruct (negb (is_nil (get_no_effect_on_outcomes g (tX q) (tY q)))).
    { apply c14n_post.
      set (q' := mkTq (union (tX q) (get_no_effect_on_outcomes g (tX q) (tY q))) (tY q) (texpr q) (tact q) (tdom q) (tgraphs q) (tsurr q)).
      apply (Postr_same q q' _ eq_refl eq_refl). apply IH. constructor; assumption. }
    set (dwi := districts (remove_nodes_from g (tX q))).
    assert (Hdwi : forall D, In D dwi -> incl D N') by (intros D HD; eapply district_closed; [apply closed_remove_nodes; exact Hg|exact HD]).
    destruct (Nat.ltb 1 (length dwi)).
    { (* line 4 *)
      set (rs := map (fun comp => trso topo f (mkTq (diff (get_regular_nodes g) comp) comp (texpr q) (tact q) (tdom q) (tgraphs q) (tsurr q))) dwi).
      assert (Hrs : forall r, In r rs -> Postr (AQ q) r).
      { intros r Hr. unfold rs in Hr. apply in_map_iff in Hr. destruct Hr as [comp [<- Hc]].
        set (q' := mkTq _ comp _ _ _ _ _). apply (Postr_same q q' _ eq_refl eq_refl). apply IH.
        constructor; cbn [tact tdom texpr tgraphs tsurr tY]; try assumption. apply Hdwi. exact Hc. }
      destruct (existsb (fun r => match r with RCrash _ | RAmbiguous => true | _ => false end) rs) eqn:Ecr.
      - destruct (existsb (fun r => match r with ROk None => true | _ => false end) rs); [exact I|]. cbn [andb].
        destruct (find _ rs) as [c|] eqn:Ef; [|exact I]. apply find_some in Ef. destruct Ef as [_ Hc]. destruct c as [[e|]| |]; try discriminate; exact I.
      - cbn [andb]. destruct (existsb (fun r => match r with ROk None => true | _ => false end) rs); [exact I|].
        apply ok_expr_post. apply canon_q. apply sum_q.
        + apply canon_q. apply PA_prod_safe. apply forallb_forall. intros e' He'. apply in_flat_map in He'. destruct He' as [r [Hr Hin]].
          destruct r as [[e''|]| |]; [|destruct Hin|destruct Hin|destruct Hin]. destruct Hin as [<-|[]]. exact (Hrs _ Hr).
        + intros v Hv. apply In_diff in Hv. apply (regular_nodes_N g Hg). tauto. }
    (* lines 6 and 7 *)
    match goal with |- Postr _ (match ?l6 with Some r => r | None => ?rest end) =>
      assert (H6 : forall r, l6 = Some r -> Postr (AQ q) r); [|assert (H7 : Postr (AQ q) rest); [|destruct l6 as [r6|]; [apply H6; reflexivity|exact H7]]] end.
    - (* line 6 *)
      destruct (is_nil (tact q) && negb (is_nil (tsurr q))) eqn:E6; [|intros r F; discriminate].
      apply andb_true_iff in E6. destruct E6 as [Eact Esurr]. apply negb_true_iff in Esurr.
      assert (Hact : tact q = []) by (destruct (tact q); [reflexivity|discriminate]).
      assert (HS : tsurr q = S0) by (destruct Hsu as [Hs|Hs]; [exact Hs|rewrite Hs in Esurr; discriminate]).
      assert (HAQ : AQ q = A_tr N S0) by (unfold AQ; rewrite Eact; reflexivity).
      assert (HKq : Kq q = [TARGET]) by (unfold Kq; rewrite Eact; reflexivity).
      assert (Hfold : forall l acc, (forall dg, In dg l -> closedN N' (snd dg)) ->
                        (forall r, acc = Some r -> Postr (AQ q) r) ->
                        forall r, fold_left (fun (acc : option trso_result) (dg : nat * mg nat) =>
                                    match acc with
                                    | Some r => Some r
                                    | None =>
                                        if Nat.eqb (fst dg) TARGET then None else
                                        match line_6_helper q (fst dg) (snd dg) with
                                        | None => Some (RCrash KeyError)
                                        | Some None => None
                                        | Some (Some sub) =>
                                            match trso topo f sub with
                                            | ROk None => None
                                            | ROk (Some e) => match activate (tact sub) (fst dg) e with
                                                              | EErr k => Some (RCrash k)
                                                              | e' => Some (ok_expr (canon e'))
                                                              end
                                            | r => Some r
                                            end
                                        end
                                    end) l acc = Some r -> Postr (AQ q) r).
      { induction l as [|dg t IHl]; intros acc Hcl Hacc r Hr; [apply Hacc; exact Hr|]. cbn [fold_left] in Hr.
        eapply IHl; [intros dg' Hdg'; apply Hcl; right; exact Hdg'| |exact Hr].
        intros r' Hr'. destruct acc as [r0|]; [injection Hr' as <-; apply Hacc; reflexivity|].
        destruct (Nat.eqb (fst dg) TARGET) eqn:Etg; [discriminate|]. apply Nat.eqb_neq in Etg.
        destruct (line_6_helper q (fst dg) (snd dg)) as [[sub|]|] eqn:E6h; [| discriminate |injection Hr' as <-; exact I].
        unfold line_6_helper in E6h. destruct (lookup (fst dg) (tsurr q)) as [Sd|] eqn:Esd; [|discriminate].
        destruct (is_nil (inter Sd (tX q))) eqn:Enil; [discriminate|].
        destruct (all_transports_d_separated (snd dg) (tX q) (tY q)) as [[|]|]; try discriminate. injection E6h as <-.
        set (sub := mkTq (diff (tX q) Sd) (tY q) (texpr q) (inter Sd (tX q)) (fst dg) (update (fst dg) (remove_nodes_from (snd dg) (inter Sd (tX q))) (tgraphs q)) (tsurr q)) in *.
        assert (Hsub : Pre sub).
        { constructor; cbn [tact tdom texpr tgraphs tsurr tY sub].
          - right. split; [intros F; rewrite F in Enil; discriminate|]. split; [exact Etg|]. exists Sd. split; [rewrite <- HS; exact Esd|].
            intros x Hx. apply In_inter in Hx. tauto.
          - unfold Kq. cbn [tact tdom sub]. rewrite Enil. eapply PA_mono; [|exact He]. intros pop ch pa. rewrite HKq. apply A_pl_mono.
            intros x [<-|[]]. left. reflexivity.
          - intros d0 g' Hin. apply update_In in Hin. destruct Hin as [[_ ->]|Hin]; [apply closed_remove_nodes; apply Hcl; left; reflexivity|eapply Hgr; exact Hin].
          - exact Hsu.
          - exact HY. }
        pose proof (IH sub Hsub) as Hres.
        destruct (trso topo f sub) as [[e|]| |] eqn:Etr; try (injection Hr' as <-; exact I); [|discriminate].
        assert (HAsub : AQ sub = A_pl N [TARGET; fst dg]) by (unfold AQ; cbn [tact tdom sub]; rewrite Enil; reflexivity).
        cbn [Postr] in Hres. rewrite HAsub in Hres.
        assert (Hact' : PA (A_tr N S0) pv (activate (tact sub) (fst dg) e) = true).
        { cbn [tact sub]. apply (activate_vocab N S0 (inter Sd (tX q)) (fst dg) Sd [TARGET; fst dg] Etg); [rewrite <- HS; exact Esd| |exact Hres].
          intros x Hx. apply In_inter in Hx. tauto. }
        assert (Hfinal : Postr (AQ q) (ok_expr (canon (activate (tact sub) (fst dg) e)))).
        { apply ok_expr_post. apply canon_q. rewrite HAQ. exact Hact'. }
        destruct (activate (tact sub) (fst dg) e) eqn:Eact'; injection Hr' as <-; try exact Hfinal; exact I. }
      intros r Hr. apply (Hfold (tgraphs q) None); [intros dg Hdg; destruct dg as [d0 g0]; eapply Hgr; exact Hdg|intros r0 F; discriminate F|exact Hr].
    - (* line 7 and beyond *)
      set (ds := districts g).
      assert (Hds : forall D, In D ds -> incl D N') by (intros D HD; eapply district_closed; eauto).
      destruct (Nat.leb (length ds) 1); [exact I|].
      destruct dwi as [|dw [|dw2 dwt]] eqn:Edw; try exact I.
      assert (Hdw : incl dw N') by (apply Hdwi; left; reflexivity).
      destruct (existsb (set_eqb dw) ds).
      { apply c14n_post. apply line9_post; assumption. }
      destruct (filter (fun d => subset dw d) ds) as [|td [|td2 tdt]] eqn:Etd; try exact I.
      assert (Htd : incl td N').
      { apply Hds. assert (Hin : In td (filter (fun d => subset dw d) ds)) by (rewrite Etd; left; reflexivity). apply filter_In in Hin. tauto. }
      assert (Hgo : forall new_surr, (new_surr = S0 \/ new_surr = []) ->
                Postr (AQ q) (with_topo topo g (fun o => c14n (trso topo f (trso_line10 q g td new_surr o))))).
      { intros ns Hns. unfold with_topo. destruct (topo g) as [o|]; [|exact I]. destruct (is_topo g o) eqn:Eo; [|exact I].
        apply c14n_post. apply (Postr_same q (trso_line10 q g td ns o) _ eq_refl eq_refl). apply IH. apply line10_pre; assumption. }
      destruct (is_nil (tact q)); [apply Hgo; right; reflexivity|].
      destruct (existsb is_transport_node (get_markov_pillow g td)); [exact I|]. apply Hgo. exact Hsu.
  Qed.
End TrsoRec.

(* ---- the public entry point ---- *)
Definition surr_of (domains : list (nat * list nat * list nat)) : list (nat * list nat) :=
  fold_left (fun acc d => update (fst (fst d)) (snd d) acc) domains [].

Lemma fold_update_closed N' (mk : nat * list nat * list nat -> mg nat) domains :
  (forall d, In d domains -> closedN N' (mk d)) -> forall acc, (forall k g', In (k, g') acc -> closedN N' g') ->
  forall k g', In (k, g') (fold_left (fun acc d => update (fst (fst d)) (mk d) acc) domains acc) -> closedN N' g'.
Proof.
  induction domains as [|d t IH]; intros Hmk acc Hacc k g' Hin; [eapply Hacc; exact Hin|]. cbn [fold_left] in Hin.
  eapply IH; [intros d' Hd'; apply Hmk; right; exact Hd'| |exact Hin].
  intros k0 g0 H0. apply update_In in H0. destruct H0 as [[_ ->]|H0]; [apply Hmk; left; reflexivity|eapply Hacc; exact H0].
Qed.

Theorem identify_target_outcomes_vocab topo (g : mg nat) Y X domains e :
  wf g -> (forall n, In n (nodes g) -> 100 <= n < 110) ->
  identify_target_outcomes topo g Y X domains = ROk (Some e) -> is_err e = false ->
  trso_vocab (nodes g) TARGET (surr_of domains) e = true.
Proof.
  intros Hwf Hrange H Hne. pose proof Hwf as [Hwd Hwb]. unfold identify_target_outcomes in H.
  destruct (subset Y (nodes g) && subset X (nodes g) && subset _ (nodes g)) eqn:Esub; cbn [negb] in H; [|discriminate].
  destruct (negb (is_nil (inter Y X))); [discriminate|].
  rewrite !andb_true_iff, !subset_incl in Esub. destruct Esub as [[HY HX] Hall].
  set (N := nodes g) in *. set (N' := N ++ seq 50 10).
  assert (Hreg : forall n, In n N -> is_transport_node n = false).
  { intros n Hn. apply Hrange in Hn. unfold is_transport_node. apply andb_false_iff. right. apply Nat.ltb_ge. lia. }
  assert (HinN : forall v, In v N -> In v N') by (intros v Hv; apply in_or_app; left; exact Hv).
  assert (Hg : closedN N' g).
  { split; [exact HinN|]. split; intros u v Huv; [apply Hwd in Huv|apply Hwb in Huv]; split; apply HinN; tauto. }
  assert (Hdiag : forall d, In d domains -> closedN N' (create_transport_diagram (get_nodes_to_transport (snd d) (snd (fst d)) g) g)).
  { intros d Hd. unfold create_transport_diagram. apply closed_from_edges.
    - exact HinN.
    - intros u v Huv. apply in_app_iff in Huv. destruct Huv as [Huv|Huv]; [apply Hwd in Huv; split; apply HinN; tauto|].
      apply in_map_iff in Huv. destruct Huv as [w [E Hw]]. injection E as <- <-.
      assert (HwN : In w N).
      { unfold get_nodes_to_transport in Hw. unfold union in Hw. apply In_dedup_acc in Hw. destruct Hw as [Hw|Hw]; apply In_diff in Hw; destruct Hw as [Hw _].
        - unfold descendants_inclusive in Hw. eapply (reach_closed N); [| |exact Hw].
          + intros a b Hab. apply Hwd in Hab. tauto.
          + intros x Hx. apply Hall. apply in_flat_map. exists d. split; [exact Hd|]. apply in_or_app. right. exact Hx.
        - apply (proj1 (In_dedup _ _)) in Hw. apply in_flat_map in Hw. destruct Hw as [D [HD Hw]].
          destruct (is_nil (inter (snd (fst d)) D)); [destruct Hw|]. eapply districts_within_nodes; eauto. }
      split; [|apply HinN; exact HwN]. apply in_or_app. right. apply in_seq. unfold transport_variable. apply Hrange in HwN. lia.
    - intros u v Huv. apply Hwb in Huv. split; apply HinN; tauto. }
  set (graphs := update TARGET g (fold_left (fun acc d => update (fst (fst d)) (create_transport_diagram (get_nodes_to_transport (snd d) (snd (fst d)) g) g) acc) domains [])) in H.
  set (q0 := mkTq X Y (prob_safe (Some (V TARGET)) (Vs N) None [] None) [] TARGET graphs (fold_left (fun acc d => update (fst (fst d)) (snd d) acc) domains [])) in H.
  assert (HP : Pre N (surr_of domains) q0).
  { constructor; cbn [tact tdom texpr tgraphs tsurr tY q0].
    - left. auto.
    - unfold Kq. cbn [tact q0 is_nil]. unfold prob_safe, dist_safe. cbn [fst snd]. unfold prob_raw.
      destruct (upgrade_ordering (Vs N ++ [])) as [|c0 ct] eqn:Eu; [reflexivity|]. rewrite <- Eu. apply PA_of_atoms. cbn [all_atoms].
      apply A_pl_spec. split; [exists TARGET; split; [reflexivity|left; reflexivity]|]. split; [rewrite Eu; discriminate|]. split; [|reflexivity].
      apply forallb_upgrade'. rewrite app_nil_r. apply plain_vars_Vs. apply incl_refl.
    - intros k g' Hin. unfold graphs in Hin. apply update_In in Hin. destruct Hin as [[_ ->]|Hin]; [exact Hg|].
      eapply (fold_update_closed N' (fun d => create_transport_diagram (get_nodes_to_transport (snd d) (snd (fst d)) g) g)); [exact Hdiag| |exact Hin].
      intros k0 g0 [].
    - left. reflexivity.
    - intros y Hy. apply HinN. apply HY. exact Hy. }
  pose proof (trso_vocab_rec N (surr_of domains) topo (fuel_for g) q0 HP) as Hres. rewrite H in Hres. cbn [Postr] in Hres.
  unfold AQ in Hres. cbn [tact q0 is_nil] in Hres. unfold PA in Hres. rewrite Hne in Hres. cbn [orb] in Hres.
  apply vocab_of_atoms. exact Hres.
Qed.
