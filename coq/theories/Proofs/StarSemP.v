(* C07/C08: the three places where ID* answers "probability zero" or drops a conjunct before building the counterfactual graph are sound in
   every functional SCM (Sem/Scm.v): an event that contradicts one of its own subscripts is true at no exogenous state, a conjunct that repeats
   one of its own subscripts is true at every state, and an inconsistent counterfactual graph means the event is true at no state (C18). *)
From Coq Require Import List Bool Arith Lia Permutation.
From Y0 Require Import Base.ListSet Graph.Closure Graph.MixedGraph Dsl.Syntax Dsl.Text Dsl.Build Alg.Cg Alg.IdStar
  Proofs.ClosureP Proofs.SurgeryP Sem.Scm Sem.CfSem Proofs.ScmP Proofs.CgSemP Proofs.CgSem2P Proofs.CgSem4P Proofs.CgSem5P.
Import ListNotations.

Section StarSem.
  Variable g0 : mg nat.
  Context {D : Type} {eqD : EqB D}.
  Variable U : Type.
  Variable f : nat -> (nat -> D) -> U -> D.
  Variable rho : nat * bool -> D.
  Hypothesis rho_distinct : forall n, rho (n, false) <> rho (n, true).
  Hypothesis f_local : local g0 U f.
  Variable order : list nat.
  Hypothesis order_ok : is_topo g0 order = true.

  Lemma star_violation_is_cg_violation ev : wnamed ev -> violates_axiom_of_effectiveness ev = true -> violates_effectiveness ev = true.
  Proof.
    intros Hn H. unfold violates_axiom_of_effectiveness in H. apply existsb_exists in H. destruct H as [p [Hp H]]. apply andb_true_iff in H. destruct H as [Hc H].
    apply existsb_exists in H. destruct H as [i [Hi H]]. apply andb_true_iff in H. destruct H as [E1 E2]. apply Nat.eqb_eq in E1.
    unfold violates_effectiveness. apply existsb_exists. exists p. split; [exact Hp|]. apply existsb_exists. exists i. split; [|exact E2].
    unfold own_interventions. rewrite Hc. apply filter_In. split; [exact Hi|]. apply Nat.eqb_eq. rewrite E1. apply Hn. exact Hp.
  Qed.

  Theorem effectiveness_violation_never ev u :
    event_ok g0 ev -> violates_axiom_of_effectiveness ev = true -> event_true U f rho order ev u = false.
  Proof.
    intros [Hk [Hn Hv]] H. destruct (event_true U f rho order ev u) eqn:E; [|reflexivity]. exfalso.
    apply (violation_never g0 U f rho rho_distinct f_local order order_ok u ev Hn); [intros p Hp; destruct (Hv p Hp) as [H1 [H2 _]]; auto|apply star_violation_is_cg_violation; assumption|].
    exact (proj1 (event_true_holds U f rho order u ev) E).
  Qed.

  Theorem tautologies_hold_everywhere ev u :
    event_ok g0 ev -> event_true U f rho order (remove_event_tautologies ev) u = event_true U f rho order ev u.
  Proof.
    intros [Hk [Hn Hv]]. apply bool_iff. rewrite !(event_true_holds U f rho order u). unfold remove_event_tautologies. split; intros H p Hp.
    - destruct (is_redundant_counterfactual (fst p) (snd p)) eqn:Er; [|apply H; apply filter_In; split; [exact Hp|rewrite Er; reflexivity]].
      unfold is_redundant_counterfactual in Er. apply andb_true_iff in Er. destruct Er as [Hc Hex]. apply existsb_exists in Hex. destruct Hex as [i [Hi Ei]].
      apply andb_true_iff in Ei. destruct Ei as [E1 E2]. apply Nat.eqb_eq in E1. apply eqb_prop in E2. destruct (Hv p Hp) as [Hcl [Hnode _]].
      pose proof (Hn p Hp) as Hname.
      assert (Hown : In i (own_interventions p)) by (unfold own_interventions; rewrite Hc; apply filter_In; split; [exact Hi|apply Nat.eqb_eq; rewrite E1; exact Hname]).
      unfold CgSemP.holds. rewrite (own_value g0 U f rho f_local order order_ok u p i Hcl Hnode Hown). f_equal. rewrite (surjective_pairing (snd p)). f_equal; [symmetry; exact Hname|exact E2].
    - apply filter_In in Hp. apply H. apply Hp.
  Qed.
End StarSem.
