(* C14: In-level characterisations of the graph surgery operations. *)
From Coq Require Import List Bool Arith Lia Relations.
From Y0 Require Import Base.ListSet Graph.Closure Graph.MixedGraph Proofs.ClosureP.
Import ListNotations.

Section SurgeryP.
  Context {A : Type} `{EqB A}.
  Notation mg := (mg A).

  Lemma In_endpoints (es : list (A * A)) v :
    In v (endpoints es) <-> exists e, In e es /\ (v = fst e \/ v = snd e).
  Proof.
    unfold endpoints. rewrite in_flat_map. split.
    - intros [e [He Hv]]. exists e. simpl in Hv. intuition.
    - intros [e [He Hv]]. exists e. simpl. intuition.
  Qed.

  Lemma In_dedup (l : list A) x : In x (dedup l) <-> In x l.
  Proof. unfold dedup. rewrite In_dedup_acc. simpl. tauto. Qed.

  Lemma NoDup_dedup (l : list A) : NoDup (dedup l).
  Proof. unfold dedup. apply NoDup_dedup_acc. constructor. Qed.

  Lemma nodes_from_edges ns ds bs v :
    In v (nodes (from_edges ns ds bs)) <-> In v ns \/ In v (endpoints ds) \/ In v (endpoints bs).
  Proof. unfold from_edges. simpl. rewrite In_dedup, !in_app_iff. tauto. Qed.

  Lemma wf_from_edges ns ds bs : wf (from_edges ns ds bs).
  Proof.
    split; intros u v Huv; split; apply nodes_from_edges.
    - right; left. apply In_endpoints. exists (u, v). auto.
    - right; left. apply In_endpoints. exists (u, v). auto.
    - right; right. apply In_endpoints. exists (u, v). auto.
    - right; right. apply In_endpoints. exists (u, v). auto.
  Qed.

  Lemma wfb_wf g : wfb g = true <-> wf g.
  Proof.
    unfold wfb, wf. rewrite andb_true_iff, !forallb_forall. split.
    - intros [Hd Hb]. split; intros u v Huv.
      + specialize (Hd _ Huv). simpl in Hd. rewrite andb_true_iff, !mem_In in Hd. exact Hd.
      + specialize (Hb _ Huv). simpl in Hb. rewrite andb_true_iff, !mem_In in Hb. exact Hb.
    - intros [Hd Hb]. split; intros [u v] Huv; simpl; rewrite andb_true_iff, !mem_In; auto.
  Qed.

  (* ---- edge filters ---- *)
  Lemma In_include_adjacent es S u v :
    In (u, v) (include_adjacent es S) <-> In (u, v) es /\ In u S /\ In v S.
  Proof. unfold include_adjacent. rewrite filter_In. simpl. rewrite andb_true_iff, !mem_In. tauto. Qed.

  Lemma In_exclude_source es S u v :
    In (u, v) (exclude_source es S) <-> In (u, v) es /\ ~ In u S.
  Proof. unfold exclude_source. rewrite filter_In. simpl. rewrite negb_true_iff, mem_false. tauto. Qed.

  Lemma In_exclude_target es S u v :
    In (u, v) (exclude_target es S) <-> In (u, v) es /\ ~ In v S.
  Proof. unfold exclude_target. rewrite filter_In. simpl. rewrite negb_true_iff, mem_false. tauto. Qed.

  Lemma In_exclude_adjacent es S u v :
    In (u, v) (exclude_adjacent es S) <-> In (u, v) es /\ ~ In u S /\ ~ In v S.
  Proof.
    unfold exclude_adjacent. rewrite filter_In. simpl.
    rewrite andb_true_iff, !negb_true_iff, !mem_false. tauto.
  Qed.

  (* ---- subgraph ---- *)
  Theorem subgraph_nodes g S v : In v (nodes (subgraph g S)) <-> In v S.
  Proof.
    unfold subgraph. rewrite nodes_from_edges, !In_endpoints. split; [|tauto].
    intros [Hv|[[[a b] [He Hv]]|[[a b] [He Hv]]]]; [exact Hv| |];
      apply In_include_adjacent in He; simpl in Hv; destruct Hv; subst; tauto.
  Qed.
  Theorem subgraph_dir g S u v : In (u, v) (dir (subgraph g S)) <-> In (u, v) (dir g) /\ In u S /\ In v S.
  Proof. apply In_include_adjacent. Qed.
  Theorem subgraph_bid g S u v : In (u, v) (bid (subgraph g S)) <-> In (u, v) (bid g) /\ In u S /\ In v S.
  Proof. apply In_include_adjacent. Qed.

  (* ---- remove_in_edges (repaired code) ---- *)
  Theorem remove_in_edges_nodes g S v : wf g -> (In v (nodes (remove_in_edges g S)) <-> In v (nodes g)).
  Proof.
    intros [Hd Hb]. unfold remove_in_edges. rewrite nodes_from_edges, !In_endpoints. split; [|tauto].
    intros [Hv|[[[a b] [He Hv]]|[[a b] [He Hv]]]]; [exact Hv| |].
    - apply In_exclude_target in He. destruct He as [He _]. apply Hd in He. simpl in Hv. destruct Hv; subst; tauto.
    - apply In_exclude_adjacent in He. destruct He as [He _]. apply Hb in He. simpl in Hv. destruct Hv; subst; tauto.
  Qed.
  Theorem remove_in_edges_dir g S u v :
    In (u, v) (dir (remove_in_edges g S)) <-> In (u, v) (dir g) /\ ~ In v S.
  Proof. apply In_exclude_target. Qed.
  Theorem remove_in_edges_bid g S u v :
    In (u, v) (bid (remove_in_edges g S)) <-> In (u, v) (bid g) /\ ~ In u S /\ ~ In v S.
  Proof. apply In_exclude_adjacent. Qed.

  (* ---- remove_nodes_from ---- *)
  Theorem remove_nodes_from_nodes g S v :
    wf g -> (In v (nodes (remove_nodes_from g S)) <-> In v (nodes g) /\ ~ In v S).
  Proof.
    intros [Hd Hb]. unfold remove_nodes_from. rewrite nodes_from_edges, !In_endpoints, In_diff. split; [|tauto].
    intros [Hv|[[[a b] [He Hv]]|[[a b] [He Hv]]]]; [exact Hv| |];
      apply In_exclude_adjacent in He; destruct He as [He [Hn1 Hn2]]; simpl in Hv.
    - apply Hd in He. destruct Hv; subst; tauto.
    - apply Hb in He. destruct Hv; subst; tauto.
  Qed.
  Theorem remove_nodes_from_dir g S u v :
    In (u, v) (dir (remove_nodes_from g S)) <-> In (u, v) (dir g) /\ ~ In u S /\ ~ In v S.
  Proof. apply In_exclude_adjacent. Qed.
  Theorem remove_nodes_from_bid g S u v :
    In (u, v) (bid (remove_nodes_from g S)) <-> In (u, v) (bid g) /\ ~ In u S /\ ~ In v S.
  Proof. apply In_exclude_adjacent. Qed.

  (* ---- remove_out_edges ---- *)
  Theorem remove_out_edges_nodes g S v : wf g -> (In v (nodes (remove_out_edges g S)) <-> In v (nodes g)).
  Proof.
    intros [Hd Hb]. unfold remove_out_edges. rewrite nodes_from_edges, !In_endpoints. split; [|tauto].
    intros [Hv|[[[a b] [He Hv]]|[[a b] [He Hv]]]]; [exact Hv| |].
    - apply In_exclude_source in He. destruct He as [He _]. apply Hd in He. simpl in Hv. destruct Hv; subst; tauto.
    - apply Hb in He. simpl in Hv. destruct Hv; subst; tauto.
  Qed.
  Theorem remove_out_edges_dir g S u v :
    In (u, v) (dir (remove_out_edges g S)) <-> In (u, v) (dir g) /\ ~ In u S.
  Proof. apply In_exclude_source. Qed.
  Theorem remove_out_edges_bid g S e : In e (bid (remove_out_edges g S)) <-> In e (bid g).
  Proof. reflexivity. Qed.

  (* ---- closures ---- *)
  Definition dpath (g : mg) : A -> A -> Prop := clos_refl_trans A (fun u v => In (u, v) (dir g)).

  Lemma In_map_swap (es : list (A * A)) u v : In (u, v) (map swap es) <-> In (v, u) es.
  Proof.
    rewrite in_map_iff. split.
    - intros [[a b] [E Hin]]. unfold swap in E. simpl in E. inversion E; subst. exact Hin.
    - intros Hin. exists (v, u). auto.
  Qed.

  Lemma reachable_swap (es : list (A * A)) x y : reachable (map swap es) x y <-> reachable es y x.
  Proof.
    unfold reachable. split; intros Hr.
    - induction Hr as [x y Hxy| |x y z _ IH1 _ IH2]; [apply rt_step; apply In_map_swap; exact Hxy|apply rt_refl|].
      eapply rt_trans; eauto.
    - induction Hr as [x y Hxy| |x y z _ IH1 _ IH2]; [apply rt_step; apply In_map_swap; exact Hxy|apply rt_refl|].
      eapply rt_trans; eauto.
  Qed.

  Theorem ancestors_inclusive_spec g S v :
    In v (ancestors_inclusive g S) <-> exists s, In s S /\ dpath g v s.
  Proof.
    unfold ancestors_inclusive. rewrite reach_spec. split; intros [s [Hs Hr]]; exists s; (split; [exact Hs|]).
    - apply (proj1 (reachable_swap _ _ _)) in Hr. exact Hr.
    - apply (proj2 (reachable_swap _ _ _)). exact Hr.
  Qed.

  Theorem descendants_inclusive_spec g S v :
    In v (descendants_inclusive g S) <-> exists s, In s S /\ dpath g s v.
  Proof. unfold descendants_inclusive. apply reach_spec. Qed.

  Lemma dpath_nodes g u v : wf g -> dpath g u v -> In u (nodes g) -> In v (nodes g).
  Proof.
    intros [Hd _] Hp. induction Hp as [x y Hxy| |x y z _ IH1 _ IH2]; auto.
    intros _. apply Hd in Hxy. tauto.
  Qed.

  Lemma dpath_nodes_rev g u v : wf g -> dpath g u v -> In v (nodes g) -> In u (nodes g).
  Proof.
    intros [Hd _] Hp. induction Hp as [x y Hxy| |x y z _ IH1 _ IH2]; auto.
    intros _. apply Hd in Hxy. tauto.
  Qed.

  Theorem ancestors_inclusive_nodes g S : wf g -> incl S (nodes g) -> incl (ancestors_inclusive g S) (nodes g).
  Proof.
    intros Hw HS v Hv. apply ancestors_inclusive_spec in Hv. destruct Hv as [s [Hs Hp]].
    eapply dpath_nodes_rev; eauto.
  Qed.

  (* ---- parents, pillow, blanket ---- *)
  Lemma In_parents g v u : In u (parents g v) <-> In (u, v) (dir g).
  Proof.
    unfold parents. rewrite in_map_iff. split.
    - intros [[a b] [E Hin]]. simpl in E. subst a. apply filter_In in Hin. destruct Hin as [Hin Eb].
      simpl in Eb. apply eqb_true in Eb. subst. exact Hin.
    - intros Hin. exists (u, v). split; [reflexivity|]. apply filter_In. split; [exact Hin|]. simpl. apply eqb_refl.
  Qed.

  Lemma In_children g v w : In w (children g v) <-> In (v, w) (dir g).
  Proof.
    unfold children. rewrite in_map_iff. split.
    - intros [[a b] [E Hin]]. simpl in E. subst b. apply filter_In in Hin. destruct Hin as [Hin Eb].
      simpl in Eb. apply eqb_true in Eb. subst. exact Hin.
    - intros Hin. exists (v, w). split; [reflexivity|]. apply filter_In. split; [exact Hin|]. simpl. apply eqb_refl.
  Qed.

  Theorem get_markov_pillow_spec g S u :
    In u (get_markov_pillow g S) <-> (exists s, In s S /\ In (u, s) (dir g)) /\ ~ In u S.
  Proof.
    unfold get_markov_pillow. rewrite In_diff, In_dedup, in_flat_map.
    split; intros [[s [Hs Hp]] Hn]; (split; [exists s; split; [exact Hs|]|exact Hn]); apply In_parents; exact Hp.
  Qed.

  Theorem get_markov_blanket_spec g S u :
    In u (get_markov_blanket g S) <->
    (exists s, In s S /\ (In (u, s) (dir g) \/ In (s, u) (dir g) \/ exists c, In (s, c) (dir g) /\ In (u, c) (dir g)))
    /\ ~ In u S.
  Proof.
    unfold get_markov_blanket. rewrite In_diff, In_dedup, in_flat_map. split.
    - intros [[s [Hs Hp]] Hn]. split; [|exact Hn]. exists s. split; [exact Hs|].
      apply in_app_iff in Hp. destruct Hp as [Hp|Hp]; [left; apply In_parents; exact Hp|].
      apply in_flat_map in Hp. destruct Hp as [c [Hc Hu]]. apply In_children in Hc.
      destruct Hu as [->|Hu]; [right; left; exact Hc|]. right; right. exists c. split; [exact Hc|apply In_parents; exact Hu].
    - intros [[s [Hs Hp]] Hn]. split; [|exact Hn]. exists s. split; [exact Hs|]. apply in_app_iff.
      destruct Hp as [Hp|[Hp|[c [Hc Hu]]]].
      + left. apply In_parents. exact Hp.
      + right. apply in_flat_map. exists u. split; [apply In_children; exact Hp|left; reflexivity].
      + right. apply in_flat_map. exists c. split; [apply In_children; exact Hc|right; apply In_parents; exact Hu].
  Qed.

  (* ---- moralize / disorient ---- *)
  Lemma In_pairs (l : list A) x y : In (x, y) (pairs l) -> In x l /\ In y l.
  Proof.
    induction l as [|a t IH]; simpl; [tauto|]. rewrite in_app_iff, in_map_iff.
    intros [[z [E Hz]]|Hp]; [inversion E; subst; tauto|]. apply IH in Hp. tauto.
  Qed.

  Lemma pairs_complete (l : list A) x y : In x l -> In y l -> x <> y -> In (x, y) (pairs l) \/ In (y, x) (pairs l).
  Proof.
    induction l as [|a t IH]; simpl; [tauto|]. intros [->|Hx] [->|Hy] Hne.
    - congruence.
    - left. apply in_app_iff. left. apply in_map_iff. exists y. auto.
    - right. apply in_app_iff. left. apply in_map_iff. exists x. auto.
    - destruct (IH Hx Hy Hne); [left|right]; apply in_app_iff; right; assumption.
  Qed.

  Theorem moralize_nodes (g : mg) : nodes (moralize g) = nodes g. Proof. reflexivity. Qed.
  Theorem moralize_dir (g : mg) : dir (moralize g) = dir g. Proof. reflexivity. Qed.
  Theorem moralize_bid_sound g u v :
    In (u, v) (bid (moralize g)) -> In (u, v) (bid g) \/ exists c, In c (nodes g) /\ In (u, c) (dir g) /\ In (v, c) (dir g).
  Proof.
    unfold moralize, iter_moral_links. simpl. rewrite in_app_iff, in_flat_map.
    intros [Hb|[c [Hc Hp]]]; [left; exact Hb|]. right. exists c. apply In_pairs in Hp.
    rewrite !In_parents in Hp. tauto.
  Qed.
  Theorem moralize_bid_complete g u v c :
    In c (nodes g) -> In (u, c) (dir g) -> In (v, c) (dir g) -> u <> v ->
    In (u, v) (bid (moralize g)) \/ In (v, u) (bid (moralize g)).
  Proof.
    intros Hc Hu Hv Hne. unfold moralize, iter_moral_links. simpl.
    destruct (pairs_complete (parents g c) u v) as [Hp|Hp]; [apply In_parents; exact Hu|apply In_parents; exact Hv|exact Hne| |];
      [left|right]; apply in_app_iff; right; apply in_flat_map; exists c; auto.
  Qed.
  Theorem moralize_keeps_bid (g : mg) e : In e (bid g) -> In e (bid (moralize g)).
  Proof. intros He. unfold moralize. simpl. apply in_app_iff. left. exact He. Qed.

  Theorem disorient_spec (g : mg) : disorient g = (nodes g, dir g ++ bid g).
  Proof. reflexivity. Qed.

  (* ---- pre ---- *)
  Theorem pre_of_spec (order S : list A) :
    exists rest, order = pre_of order S ++ rest /\ (forall x, In x (pre_of order S) -> ~ In x S) /\
                 (rest = [] \/ exists h t, rest = h :: t /\ In h S).
  Proof.
    induction order as [|v t IH]; simpl.
    - exists []. split; [reflexivity|]. split; [tauto|left; reflexivity].
    - destruct (mem v S) eqn:Em.
      + exists (v :: t). split; [reflexivity|]. split; [simpl; tauto|]. right. exists v, t. split; [reflexivity|].
        apply mem_In. exact Em.
      + destruct IH as [rest [E [Hn Hr]]]. exists rest. split; [simpl; f_equal; exact E|]. split; [|exact Hr].
        intros x [->|Hx]; [apply mem_false; exact Em|apply Hn; exact Hx].
  Qed.

  (* ---- is_topo ---- *)
  Lemma nodupb_NoDup (l : list A) : nodupb l = true <-> NoDup l.
  Proof.
    induction l as [|x t IH]; simpl; [split; [constructor|reflexivity]|].
    rewrite andb_true_iff, negb_true_iff, mem_false, IH. split.
    - intros [Hn Ht]. constructor; assumption.
    - intros Hn. inversion Hn; subst. tauto.
  Qed.

  Theorem is_topo_spec g order :
    is_topo g order = true <->
    NoDup order /\ set_equiv order (nodes g) /\
    forall u v, In (u, v) (dir g) -> exists i j, index_of u order = Some i /\ index_of v order = Some j /\ i < j.
  Proof.
    unfold is_topo. rewrite !andb_true_iff, nodupb_NoDup, set_eqb_equiv, forallb_forall. split.
    - intros [[Hn He] Hf]. split; [exact Hn|]. split; [exact He|]. intros u v Huv. specialize (Hf _ Huv).
      unfold edge_forward in Hf. simpl in Hf. destruct (index_of u order) as [i|]; [|discriminate].
      destruct (index_of v order) as [j|]; [|discriminate]. exists i, j. apply Nat.ltb_lt in Hf. auto.
    - intros [Hn [He Hf]]. split; [split; assumption|]. intros [u v] Huv. destruct (Hf _ _ Huv) as [i [j [Ei [Ej Hlt]]]].
      unfold edge_forward. simpl. rewrite Ei, Ej. apply Nat.ltb_lt. exact Hlt.
  Qed.
End SurgeryP.

(* the behaviour of the pinned tree before the repair: a node can disappear
   (X=0 -> Y=1, remove the edges into Y: node X vanished) *)
Theorem remove_in_edges_old_refuted :
  exists (g : mg nat) S v, wf g /\ In v (nodes g) /\ ~ In v (nodes (remove_in_edges_old g S)).
Proof.
  exists (from_edges [] [(0, 1)] []), [1], 0. split; [apply wf_from_edges|].
  split; [vm_compute; auto|]. vm_compute. intros [E|[]]. discriminate.
Qed.
