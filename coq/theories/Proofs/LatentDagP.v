From Coq Require Import List Bool Arith Lia.
From Y0 Require Import Base.ListSet Graph.Closure Graph.MixedGraph Graph.DSep Graph.LatentDag
  Proofs.SurgeryP Proofs.CondIndP.
Import ListNotations.

(* ------------------------------------------------------------ round trip *)

Lemma filter_none {T} (p : T -> bool) l : (forall e, In e l -> p e = false) -> filter p l = [].
Proof.
  induction l as [|e t IH]; intros Hall; simpl; [reflexivity|]. rewrite (Hall e (or_introl eq_refl)). apply IH.
  intros e' He'. apply Hall. right. exact He'.
Qed.

Lemma fold_max_ge (l : list nat) v : In v l -> v <= fold_right Nat.max 0 l.
Proof. induction l as [|a t IH]; simpl; [tauto|]. intros [->|Hv]; [lia|]. specialize (IH Hv). lia. Qed.

Lemma lt_fresh (g : mg nat) v : In v (nodes g) -> v < fresh g.
Proof. intros Hv. unfold fresh. apply fold_max_ge in Hv. lia. Qed.

Lemma In_latent_edges base bs : forall k s t,
  In (s, t) (latent_edges base k bs) <->
  exists i u v, nth_error bs i = Some (u, v) /\ s = base + (k + i) /\ (t = u \/ t = v).
Proof.
  induction bs as [|[u v] bs IH]; intros k s t; simpl.
  - split; [tauto|]. intros [i [u [v [E _]]]]. destruct i; discriminate.
  - rewrite IH. split.
    + intros [E|[E|[i [u' [v' [En [Es Et]]]]]]].
      * injection E as Hs Ht. exists 0, u, v. simpl. split; [reflexivity|split; [lia|left; congruence]].
      * injection E as Hs Ht. exists 0, u, v. simpl. split; [reflexivity|split; [lia|right; congruence]].
      * exists (S i), u', v'. simpl. repeat split; auto; lia.
    + intros [i [u' [v' [En [Es Et]]]]]. destruct i as [|i]; simpl in En.
      * inversion En; subst. replace (base + (k + 0)) with (base + k) by lia. destruct Et; subst; auto.
      * right; right. exists i, u', v'. repeat split; auto; lia.
Qed.

Lemma filter_latent_edges base bs : forall k i u v,
  nth_error bs i = Some (u, v) ->
  filter (fun e => Nat.eqb (fst e) (base + (k + i))) (latent_edges base k bs)
  = [(base + (k + i), u); (base + (k + i), v)].
Proof.
  induction bs as [|[u0 v0] bs IH]; intros k i u v En; [destruct i; discriminate|].
  destruct i as [|i]; simpl in En.
  - inversion En; subst. simpl. replace (base + (k + 0)) with (base + k) by lia. rewrite Nat.eqb_refl. simpl.
    f_equal. f_equal.
    assert (Hnone : forall k', k < k' -> filter (fun e => Nat.eqb (fst e) (base + k)) (latent_edges base k' bs) = []).
    { clear. induction bs as [|[a b] bs IH]; intros k' Hk; simpl; [reflexivity|].
      assert (E : Nat.eqb (base + k') (base + k) = false) by (apply Nat.eqb_neq; lia). rewrite E. simpl.
      apply IH. lia. }
    apply Hnone. lia.
  - simpl. assert (E : Nat.eqb (base + k) (base + (k + S i)) = false) by (apply Nat.eqb_neq; lia).
    rewrite E. simpl. replace (k + S i) with (S k + i) by lia. apply IH. exact En.
Qed.

Section RoundTrip.
  Variable g : mg nat.
  Hypothesis Hwf : wf g.
  Hypothesis Hnoloop : forall u, ~ In (u, u) (bid g).

  Let d := to_lv g.
  Let f := fresh g.
  Let m := length (bid g).

  Lemma observed_to_lv v : In v (observed d) <-> In v (nodes g).
  Proof.
    unfold observed, d, to_lv. simpl. rewrite In_diff, in_app_iff, in_seq. split.
    - intros [[Hv|Hv] Hn]; [exact Hv|]. exfalso. apply Hn. exact Hv.
    - intros Hv. split; [left; exact Hv|]. apply lt_fresh in Hv. try unfold f in *; lia.
  Qed.

  Lemma ledges_from_observed u c : In u (nodes g) -> (In (u, c) (ledges d) <-> In (u, c) (dir g)).
  Proof.
    intros Hu. unfold d, to_lv. simpl. rewrite in_app_iff. split; [|tauto].
    intros [Hd|Hl]; [exact Hd|]. apply In_latent_edges in Hl. destruct Hl as [i [u' [v' [_ [Es _]]]]].
    apply lt_fresh in Hu. try unfold f in *; lia.
  Qed.

  Lemma In_lsuccs dd v c : In c (lsuccs dd v) <-> In (v, c) (ledges dd).
  Proof.
    unfold lsuccs. rewrite In_dedup, in_map_iff. split.
    - intros [[a b] [E Hin]]. simpl in E. subst b. apply filter_In in Hin. destruct Hin as [Hin Ea]. simpl in Ea.
      apply Nat.eqb_eq in Ea. subst. exact Hin.
    - intros Hin. exists (v, c). split; [reflexivity|]. apply filter_In. split; [exact Hin|]. simpl. apply Nat.eqb_refl.
  Qed.

  Lemma lsuccs_latent i u v : nth_error (bid g) i = Some (u, v) -> lsuccs d (f + i) = [u; v].
  Proof.
    intros En. unfold lsuccs. unfold d, to_lv. cbn [ledges]. rewrite filter_app.
    assert (Hd : filter (fun e => Nat.eqb (fst e) (f + i)) (dir g) = []).
    { apply filter_none. intros [a b] Hin. cbn [fst]. apply Nat.eqb_neq. apply Hwf in Hin. destruct Hin as [Ha _].
      apply lt_fresh in Ha. unfold f. lia. }
    rewrite Hd. cbn [app]. pose proof (filter_latent_edges f (bid g) 0 i u v En) as Hf. rewrite Nat.add_0_l in Hf.
    fold f. rewrite Hf. cbn [map snd]. unfold dedup. cbn [dedup_acc mem existsb app].
    assert (Huv : eqb v u = false).
    { apply eqb_neq. intros ->. apply nth_error_In in En. exact (Hnoloop u En). }
    rewrite Huv. reflexivity.
  Qed.

  Theorem round_trip_nodes v : In v (nodes (from_lv d)) <-> In v (nodes g).
  Proof.
    unfold from_lv. rewrite nodes_from_edges, !In_endpoints. split.
    - intros [Hv|[[[a b] [He Hv]]|[[a b] [He Hv]]]].
      + apply observed_to_lv. exact Hv.
      + apply in_flat_map in He. destruct He as [u [Hu Hc]]. apply in_map_iff in Hc. destruct Hc as [c [E Hc]].
        inversion E; subst. apply observed_to_lv in Hu. apply In_lsuccs in Hc. apply (ledges_from_observed _ _ Hu) in Hc.
        apply Hwf in Hc. simpl in Hv. destruct Hv; subst; tauto.
      + apply in_flat_map in He. destruct He as [l [Hl Hp]]. apply filter_In in Hl. destruct Hl as [_ Hl].
        apply mem_In in Hl. unfold d, to_lv in Hl. cbn [llat] in Hl. apply in_seq in Hl. fold f m in Hl.
        destruct (nth_error (bid g) (l - f)) as [[u w]|] eqn:En; [|apply nth_error_None in En; try unfold f in *; try unfold m in *; lia].
        replace l with (f + (l - f)) in Hp by (try unfold f in *; try unfold m in *; lia). rewrite (lsuccs_latent _ _ _ En) in Hp. simpl in Hp.
        destruct Hp as [E|[]]. inversion E; subst. apply nth_error_In in En. apply Hwf in En. simpl in Hv. destruct Hv; subst; tauto.
    - intros Hv. left. apply observed_to_lv. exact Hv.
  Qed.

  Theorem round_trip_dir u c : In (u, c) (dir (from_lv d)) <-> In (u, c) (dir g).
  Proof.
    unfold from_lv. simpl. rewrite in_flat_map. split.
    - intros [u' [Hu Hc]]. apply in_map_iff in Hc. destruct Hc as [c' [E Hc]]. inversion E; subst.
      apply observed_to_lv in Hu. apply In_lsuccs in Hc. apply (ledges_from_observed _ _ Hu). exact Hc.
    - intros Hd. exists u. pose proof (proj1 (Hwf) _ _ Hd) as [Hu _]. split; [apply observed_to_lv; exact Hu|].
      apply in_map_iff. exists c. split; [reflexivity|]. apply In_lsuccs. apply ledges_from_observed; assumption.
  Qed.

  Theorem round_trip_bid a b : In (a, b) (bid (from_lv d)) <-> In (a, b) (bid g).
  Proof.
    unfold from_lv. simpl. rewrite in_flat_map. split.
    - intros [l [Hl Hp]]. apply filter_In in Hl. destruct Hl as [_ Hl].
      apply mem_In in Hl. unfold d, to_lv in Hl. cbn [llat] in Hl. apply in_seq in Hl. fold f m in Hl.
      destruct (nth_error (bid g) (l - f)) as [[u w]|] eqn:En; [|apply nth_error_None in En; try unfold f in *; try unfold m in *; lia].
      replace l with (f + (l - f)) in Hp by (try unfold f in *; try unfold m in *; lia). rewrite (lsuccs_latent _ _ _ En) in Hp. simpl in Hp.
      destruct Hp as [E|[]]. inversion E; subst. apply nth_error_In in En. exact En.
    - intros Hin. apply In_nth_error in Hin. destruct Hin as [i En]. exists (f + i). split.
      + apply filter_In. assert (Hi : i < m) by (apply nth_error_Some; rewrite En; discriminate). split.
        * unfold d, to_lv. cbn [lnodes]. apply in_app_iff. right. apply in_seq. try unfold f in *; try unfold m in *; lia.
        * apply mem_In. unfold d, to_lv. cbn [llat]. apply in_seq. try unfold f in *; try unfold m in *; lia.
      + rewrite (lsuccs_latent _ _ _ En). simpl. left. reflexivity.
  Qed.
End RoundTrip.

(* ------------------------------------------------------------ simplification keeps observed nodes *)

Lemma observed_remove_latents (d : lv) S v : incl S (llat d) -> (In v (observed (lv_remove_nodes d S)) <-> In v (observed d)).
Proof.
  intros HS. unfold observed, lv_remove_nodes. simpl. rewrite !In_diff. split.
  - intros [[Hv Hn] Hl]. split; [exact Hv|]. intros F. apply Hl. split; [exact F|exact Hn].
  - intros [Hv Hl]. split; [split; [exact Hv|]|tauto]. intros F. apply Hl. apply HS. exact F.
Qed.

Lemma observed_transform_one (d : lv) L v :
  In L (llat d) -> ~ In (prime L) (observed d) -> (In v (observed (transform_one d L)) <-> In v (observed d)).
Proof.
  intros HL Hp. unfold transform_one. destruct (is_nil (lpreds d L) || is_nil (lsuccs d L)); [tauto|].
  unfold observed. simpl. rewrite !In_diff, !in_app_iff, !In_diff. simpl. split.
  - intros [[[Hv Hn]|[<-|[]]] Hl].
    + split; [exact Hv|]. intros F. apply Hl. left. split; [exact F|exact Hn].
    + exfalso. apply Hl. right. left. reflexivity.
  - intros [Hv Hl]. assert (Hne : v <> L) by (intros ->; contradiction).
    assert (Hnp : v <> prime L). { intros ->. apply Hp. unfold observed. apply In_diff. tauto. }
    split.
    + left. split; [exact Hv|]. intros [F|[]]. congruence.
    + intros [[F _]|[F|[]]]; [contradiction|congruence].
Qed.

Lemma llat_transform_one (d : lv) L x : In x (llat (transform_one d L)) -> In x (llat d) \/ x = prime L.
Proof.
  unfold transform_one. destruct (is_nil (lpreds d L) || is_nil (lsuccs d L)); [tauto|]. simpl.
  rewrite in_app_iff, In_diff. simpl. intros [[Hx _]|[<-|[]]]; auto.
Qed.

Lemma widows_incl d : incl (widows d) (llat d).
Proof. unfold widows. intros x Hx. apply filter_In in Hx. tauto. Qed.

Lemma remove_widows_fuel_observed fuel : forall d v,
  In v (observed (remove_widow_latents_fuel fuel d)) <-> In v (observed d).
Proof.
  induction fuel as [|f IH]; intros d v; simpl.
  - destruct (is_nil (widows d)); tauto.
  - destruct (is_nil (widows d)); [tauto|]. rewrite IH. apply observed_remove_latents. apply widows_incl.
Qed.

Section KeepsObserved.
  Variable d : lv.
  (* the name chosen for a transformed latent is not already in use (y0: "<name>_prime") *)
  Hypothesis Hfresh : forall L, In L (llat d) -> ~ In (prime L) (lnodes d).

  Lemma kahn_incl {A} `{EqB A} fuel : forall (rem : list A) es acc o, kahn fuel rem es acc = Some o -> incl o (acc ++ rem).
  Proof.
    induction fuel as [|f IH]; intros rem es acc o; simpl.
    - destruct rem; [|discriminate]. intros E. inversion E; subst. rewrite app_nil_r. apply incl_refl.
    - destruct (find _ rem) as [v|] eqn:Ef.
      + intros E. apply IH in E. intros x Hx. apply E in Hx. rewrite !in_app_iff in *. simpl in Hx.
        apply find_some in Ef. destruct Ef as [Hv _].
        destruct Hx as [[Hx|[<-|[]]]|Hx]; [tauto|tauto|]. apply filter_In in Hx. tauto.
      + destruct rem; [|discriminate]. intros E. inversion E; subst. rewrite app_nil_r. apply incl_refl.
  Qed.

  Lemma lv_topo_incl : incl (lv_topo d) (lnodes d).
  Proof.
    unfold lv_topo, topological_sort. simpl. destruct (kahn _ _ _ _) eqn:E; [|apply incl_refl].
    apply kahn_incl in E. simpl in E. exact E.
  Qed.

  Lemma transform_fold_observed (order : list nat) : forall acc,
    incl order (lnodes d) ->
    (forall v, In v (observed acc) <-> In v (observed d)) ->
    (forall x, In x (llat acc) -> In x (llat d) \/ ~ In x (lnodes d)) ->
    forall v, In v (observed (fold_left (fun a L => if mem L (llat a) then transform_one a L else a) order acc)) <-> In v (observed d).
  Proof.
    induction order as [|L t IH]; intros acc Hord Hobs Hlat v; simpl; [apply Hobs|].
    assert (Ht : incl t (lnodes d)) by (intros x Hx; apply Hord; right; exact Hx).
    destruct (mem L (llat acc)) eqn:Em; [|apply IH; assumption].
    apply mem_In in Em.
    assert (HLd : In L (llat d)).
    { destruct (Hlat L Em) as [HL|HL]; [exact HL|]. exfalso. apply HL. apply Hord. left. reflexivity. }
    assert (Hp : ~ In (prime L) (observed acc)).
    { intros F. apply Hobs in F. unfold observed in F. apply In_diff in F. apply (Hfresh L HLd). tauto. }
    apply IH; [exact Ht| |].
    - intros w. rewrite (observed_transform_one acc L w Em Hp). apply Hobs.
    - intros x Hx. apply llat_transform_one in Hx. destruct Hx as [Hx| ->]; [apply Hlat; exact Hx|].
      right. apply Hfresh. exact HLd.
  Qed.

  Theorem simplify_keeps_observed v : In v (observed (simplify_latent_dag d)) <-> In v (observed d).
  Proof.
    unfold simplify_latent_dag, remove_redundant_latents, remove_unidirectional_latents, remove_widow_latents.
    rewrite observed_remove_latents by (unfold redundant; intros x Hx; apply filter_In in Hx; tauto).
    rewrite observed_remove_latents by (intros x Hx; apply filter_In in Hx; tauto).
    rewrite remove_widows_fuel_observed.
    unfold transform_latents_with_parents. apply transform_fold_observed; [apply lv_topo_incl|tauto|tauto].
  Qed.
End KeepsObserved.

(* ------------------------------------------------------------ the pinned tree was not idempotent *)
(* U1 -> U2, both latent (harness names 4 and 6): one pass removes only U2 *)
Theorem simplify_old_not_idempotent :
  exists d, lv_eqb (simplify_latent_dag_old (simplify_latent_dag_old d)) (simplify_latent_dag_old d) = false.
Proof. exists (LV [4; 6] [(4, 6)] [4; 6]). vm_compute. reflexivity. Qed.

Example simplify_repaired_idempotent_on_witness :
  let d := LV [4; 6] [(4, 6)] [4; 6] in lv_eqb (simplify_latent_dag (simplify_latent_dag d)) (simplify_latent_dag d) = true.
Proof. vm_compute. reflexivity. Qed.
