(* C20, part 2: an active simple path of the latent DAG collapses (dropping the latent nodes) to a sigma-open simple path
   of the mixed graph; with part 1 and C04 the sigma-separation test equals d-separation on acyclic graphs. *)
From Coq Require Import List Bool Arith Lia Relations.
From Y0 Require Import Base.ListSet Graph.Closure Graph.Paths Graph.MixedGraph Graph.DSep Graph.MSep Graph.Sigma
  Proofs.ClosureP Proofs.SurgeryP Proofs.SigmaP Proofs.MSepP Proofs.MSepSymP Proofs.MSepLatP Proofs.MSepPathP Proofs.MSepShortP
  Proofs.KahnP Proofs.DSepFullP Proofs.SigmaAgreeP.
Import ListNotations.

Section Collapse.
  Variable g : mg nat.
  Hypothesis g_wf : wf g.
  Variable C : list nat.
  Hypothesis C_nodes : incl C (nodes g).

  Let f := fresh g.
  Let L := lat g.
  Let esL := dir L.
  Let anC := ancestors_inclusive L C.
  Notation obs x := (x < f).
  Notation adjs := (und_adj (dir g ++ bid g)).
  Notation th l m r := (triple_helper false g l m r C).

  Definition collapse (p : list nat) : list nat := filter (fun x => Nat.ltb x f) p.

  (* edges of L *)
  Lemma L_edge u x : In (u, x) esL -> (obs u /\ obs x /\ In (u, x) (dir g)) \/
                                      (f <= u /\ obs x /\ exists y, In (u, y) esL /\ (In (x, y) (bid g) \/ In (y, x) (bid g) \/ x = y)).
  Proof.
    intros He. apply (dirL g) in He. destruct He as [He|He].
    - left. destruct (dir_lt g g_wf _ _ He). auto.
    - right. apply (lat_edge g) in He. destruct He as [i [p [q [Hn [Hu Hx]]]]].
      pose proof (nth_error_In _ _ Hn) as Hpq. destruct (bid_lt g g_wf _ _ Hpq) as [Hp Hq].
      split; [fold f; lia|]. split; [destruct Hx; subst; assumption|].
      destruct Hx as [->| ->].
      + exists q. split; [apply (dirL g); right; apply (lat_edge g); exists i, p, q; auto|left; exact Hpq].
      + exists p. split; [apply (dirL g); right; apply (lat_edge g); exists i, p, q; auto|right; left; exact Hpq].
  Qed.

  Lemma latent_children u x y : f <= u -> In (u, x) esL -> In (u, y) esL -> x <> y -> In (x, y) (bid g) \/ In (y, x) (bid g).
  Proof.
    intros Hu Hx Hy Hne. apply (dirL g) in Hx. apply (dirL g) in Hy.
    destruct Hx as [Hx|Hx]; [apply (dir_lt g g_wf) in Hx; fold f in Hx; lia|]. destruct Hy as [Hy|Hy]; [apply (dir_lt g g_wf) in Hy; fold f in Hy; lia|].
    apply (lat_edge g) in Hx. apply (lat_edge g) in Hy. destruct Hx as [i [p [q [Hn [Hui Hx]]]]]. destruct Hy as [j [p' [q' [Hn' [Huj Hy]]]]].
    assert (i = j) by (fold f in Hui, Huj; lia). subst j. rewrite Hn in Hn'. injection Hn' as <- <-.
    pose proof (nth_error_In _ _ Hn) as Hpq. destruct Hx as [->| ->], Hy as [->| ->]; try congruence; auto.
  Qed.

  Lemma no_edge_into_lat x u : f <= u -> ~ In (x, u) esL.
  Proof.
    intros Hu He. destruct (L_edge _ _ He) as [[_ [Ho _]]|[_ [Ho _]]]; lia.
  Qed.

  (* directed paths of L from an observed node stay in g *)
  Lemma dpath_L_g m c : obs m -> dpath L m c -> dpath g m c.
  Proof.
    intros Hm Hp. apply clos_rt_rt1n in Hp. induction Hp as [x|x y z Hxy _ IH]; [apply rt_refl|].
    destruct (L_edge _ _ Hxy) as [[_ [Hy Hd]]|[Hx _]]; [|lia].
    eapply rt_trans; [apply rt_step; exact Hd|apply IH; exact Hy].
  Qed.

  (* the shape of a path of L between observed nodes: steps along an edge of g, or across one latent node *)
  Inductive Lp : list nat -> Prop :=
  | Lp_one x : obs x -> Lp [x]
  | Lp_dir x y t : obs x -> obs y -> (In (x, y) esL \/ In (y, x) esL) -> Lp (y :: t) -> Lp (x :: y :: t)
  | Lp_lat x u y t : obs x -> f <= u -> obs y -> In (u, x) esL -> In (u, y) esL -> Lp (y :: t) -> Lp (x :: u :: y :: t).

  Lemma Lp_shape n : forall p x b, length p <= n -> chainA (und_adj esL) (x :: p) -> obs x -> last_is b (x :: p) -> obs b -> Lp (x :: p).
  Proof.
    induction n as [|n IH]; intros p x b Hlen Hch Hx Hl Hb.
    - destruct p; [constructor; exact Hx|cbn in Hlen; lia].
    - destruct p as [|y t]; [constructor; exact Hx|]. inversion Hch as [|? ? ? Hadj Hch']; subst. apply In_und_adj in Hadj.
      destruct (Nat.lt_ge_cases y f) as [Hy|Hy].
      + apply Lp_dir; [exact Hx|exact Hy|exact Hadj|]. apply (IH t y b); [cbn in Hlen; lia|exact Hch'|exact Hy|eapply last_is_cons; exact Hl|exact Hb].
      + assert (Hux : In (y, x) esL) by (destruct Hadj as [Hadj|Hadj]; [exfalso; exact (no_edge_into_lat _ _ Hy Hadj)|exact Hadj]).
        destruct t as [|z t'].
        * apply last_is_cons, last_is_one in Hl. subst. lia.
        * inversion Hch' as [|? ? ? Hadj' Hch'']; subst. apply In_und_adj in Hadj'.
          assert (Huz : In (y, z) esL) by (destruct Hadj' as [Hadj'|Hadj']; [exact Hadj'|exfalso; exact (no_edge_into_lat _ _ Hy Hadj')]).
          assert (Hz : obs z) by (destruct (L_edge _ _ Huz) as [[_ [Ho _]]|[_ [Ho _]]]; exact Ho).
          apply Lp_lat; try assumption.
          apply (IH t' z b); [cbn in Hlen; lia|exact Hch''|exact Hz|eapply last_is_cons, last_is_cons; exact Hl|exact Hb].
  Qed.

  Lemma collapse_head x t : obs x -> collapse (x :: t) = x :: collapse t.
  Proof. intros Hx. unfold collapse. cbn [filter]. rewrite (proj2 (Nat.ltb_lt x f) Hx). reflexivity. Qed.
  Lemma collapse_lat u t : f <= u -> collapse (u :: t) = collapse t.
  Proof. intros Hu. unfold collapse. cbn [filter]. rewrite (proj2 (Nat.ltb_ge u f) Hu). reflexivity. Qed.

  Lemma Lp_collapse_hd p : Lp p -> exists x t, p = x :: t /\ obs x /\ collapse p = x :: collapse t.
  Proof. intros H. destruct H as [x Hx|x y t Hx _ _ _|x u y t Hx _ _ _ _ _]; eexists _, _; (split; [reflexivity|split; [exact Hx|apply collapse_head; exact Hx]]). Qed.

  Lemma obs_adj x y : obs x -> obs y -> (In (x, y) esL \/ In (y, x) esL) -> In y (adjs x).
  Proof.
    intros Hx Hy He. apply In_und_adj. rewrite !in_app_iff.
    destruct He as [He|He]; destruct (L_edge _ _ He) as [[_ [_ Hd]]|[Hu _]]; try lia; auto.
  Qed.

  Lemma Lp_chain p : Lp p -> NoDup p -> chainA adjs (collapse p).
  Proof.
    intros H. induction H as [x Hx|x y t Hx Hy He Ht IH|x u y t Hx Hu Hy Hux Huy Ht IH]; intros Hnd.
    - rewrite collapse_head by exact Hx. constructor.
    - inversion Hnd as [|? ? _ Hnd']; subst. specialize (IH Hnd').
      rewrite (collapse_head x (y :: t) Hx). rewrite (collapse_head y t Hy) in IH |- *.
      constructor; [apply obs_adj; assumption|exact IH].
    - inversion Hnd as [|? ? Hxn Hnd']; subst. inversion Hnd' as [|? ? _ Hnd'']; subst. specialize (IH Hnd'').
      rewrite (collapse_head x (u :: y :: t) Hx), (collapse_lat u (y :: t) Hu). rewrite (collapse_head y t Hy) in IH |- *.
      constructor; [|exact IH].
      assert (Hne : x <> y) by (intros ->; apply Hxn; right; left; reflexivity).
      apply In_und_adj. rewrite !in_app_iff. destruct (latent_children u x y Hu Hux Huy Hne); auto.
  Qed.

  Lemma Lp_last p b : Lp p -> last_is b p -> obs b -> last_is b (collapse p).
  Proof.
    intros H. induction H as [x Hx|x y t Hx Hy He Ht IH|x u y t Hx Hu Hy Hux Huy Ht IH]; intros Hl Hb.
    - rewrite collapse_head by exact Hx. exact Hl.
    - rewrite collapse_head by exact Hx. apply last_is_cons in Hl. destruct (IH Hl Hb) as [pre E]. exists (x :: pre). rewrite E. reflexivity.
    - rewrite collapse_head by exact Hx. rewrite collapse_lat by exact Hu. apply last_is_cons, last_is_cons in Hl.
      destruct (IH Hl Hb) as [pre E]. exists (x :: pre). rewrite E. reflexivity.
  Qed.

  (* the mark at m of the L-edge between lh and m *)
  Definition inmark (lh m : nat) : mark := if mem (lh, m) esL then Head else Tail.

  Hypothesis acyc : forall v, ~ clos_trans nat (fun x y => In (x, y) (dir g)) v v.

  Lemma tri_th l lh m rh r :
    adm g l m (inmark lh m) -> adm g r m (inmark rh m) -> tri esL anC C lh m rh = true -> obs m -> th l m r = true.
  Proof.
    intros H1 H2 Ht Hm. apply (disj_th g C l m r (inmark lh m) (inmark rh m)). split; [exact H1|]. split; [exact H2|].
    unfold tri, DSep.is_collider in Ht. unfold inmark in *.
    destruct (mem (lh, m) esL), (mem (rh, m) esL); cbn [andb act] in *; try (apply negb_true_iff, mem_false in Ht; exact Ht).
    apply mem_In in Ht. apply ancestors_inclusive_spec in Ht. destruct Ht as [c [Hc Hd]]. exists c. split; [exact Hc|]. apply dpath_L_g; assumption.
  Qed.

  Lemma adm_dir x y : obs x -> obs y -> (In (x, y) esL \/ In (y, x) esL) -> adm g x y (inmark x y).
  Proof.
    intros Hx Hy He. unfold inmark. destruct (mem (x, y) esL) eqn:E; cbn [adm].
    - apply mem_In in E. apply he_spec. destruct (L_edge _ _ E) as [[_ [_ Hd]]|[Hu _]]; [left; exact Hd|lia].
    - apply mem_false in E. apply od_spec. destruct He as [He|He]; [contradiction|]. destruct (L_edge _ _ He) as [[_ [_ Hd]]|[Hu _]]; [exact Hd|lia].
  Qed.

  Lemma adm_lat x u y : f <= u -> In (u, x) esL -> In (u, y) esL -> x <> y -> adm g x y (inmark u y).
  Proof.
    intros Hu Hx Hy Hne. unfold inmark. rewrite (proj2 (mem_In _ _) Hy). cbn [adm]. apply he_spec.
    destruct (latent_children u x y Hu Hx Hy Hne); auto.
  Qed.

  (* the triples of the collapsed path *)
  Lemma Lp_triples : forall q, Lp q -> forall l lh m rest, q = m :: rest -> NoDup (l :: lh :: q) \/ (l = lh /\ NoDup (l :: q)) ->
    adm g l m (inmark lh m) -> triples_ok esL anC C (lh :: q) = true ->
    triples_all false g C (l :: collapse q) = true.
  Proof.
    intros q H. induction H as [x Hx|x y t Hx Hy He Ht IH|x u y t Hx Hu Hy Hux Huy Ht IH]; intros l lh m rest E Hnd Hadm HT; injection E as <- <-.
    - rewrite collapse_head by exact Hx. reflexivity.
    - rewrite collapse_head by exact Hx. rewrite (collapse_head y t Hy).
      change (triples_ok esL anC C (lh :: x :: y :: t)) with (tri esL anC C lh x y && triples_ok esL anC C (x :: y :: t)) in HT.
      apply andb_true_iff in HT. destruct HT as [Htri HT].
      assert (Hxy : x <> y) by (destruct Hnd as [Hnd|[_ Hnd]]; [inversion Hnd as [|? ? _ H1]; inversion H1 as [|? ? _ H2]; inversion H2 as [|? ? Hn _]|inversion Hnd as [|? ? _ H2]; inversion H2 as [|? ? Hn _]]; intros ->; apply Hn; left; reflexivity).
      change (triples_all false g C (l :: x :: y :: collapse t)) with (triple_has_correct_form false g l x y C && triples_all false g C (x :: y :: collapse t)).
      apply andb_true_iff. split.
      + unfold triple_has_correct_form. apply orb_true_iff. left. apply (tri_th l lh x y y); [exact Hadm| |exact Htri|exact Hx].
        apply (adm_dir y x Hy Hx). tauto.
      + rewrite <- (collapse_head y t Hy). apply (IH x x y t eq_refl); [right; split; [reflexivity|]| |exact HT].
        * destruct Hnd as [Hnd|[_ Hnd]]; [inversion Hnd as [|? ? _ H1]; inversion H1; assumption|inversion Hnd; assumption].
        * apply adm_dir; assumption.
    - rewrite collapse_head by exact Hx. rewrite collapse_lat by exact Hu. rewrite (collapse_head y t Hy).
      change (triples_ok esL anC C (lh :: x :: u :: y :: t)) with (tri esL anC C lh x u && triples_ok esL anC C (x :: u :: y :: t)) in HT.
      apply andb_true_iff in HT. destruct HT as [Htri HT].
      change (triples_ok esL anC C (x :: u :: y :: t)) with (tri esL anC C x u y && triples_ok esL anC C (u :: y :: t)) in HT.
      apply andb_true_iff in HT. destruct HT as [_ HT].
      assert (Hndq : NoDup (x :: u :: y :: t)) by (destruct Hnd as [Hnd|[_ Hnd]]; [inversion Hnd as [|? ? _ H1]; inversion H1; assumption|inversion Hnd; assumption]).
      assert (Hxy : x <> y) by (inversion Hndq as [|? ? Hn _]; intros ->; apply Hn; right; left; reflexivity).
      change (triples_all false g C (l :: x :: y :: collapse t)) with (triple_has_correct_form false g l x y C && triples_all false g C (x :: y :: collapse t)).
      apply andb_true_iff. split.
      + unfold triple_has_correct_form. apply orb_true_iff. left. apply (tri_th l lh x u y); [exact Hadm| |exact Htri|exact Hx].
        apply (adm_lat y u x Hu Huy Hux). intros E. apply Hxy. symmetry. exact E.
      + rewrite <- (collapse_head y t Hy). apply (IH x u y t eq_refl); [left; exact Hndq|apply adm_lat; assumption|exact HT].
  Qed.
End Collapse.

Lemma last_of_last_is {T} (b d : T) l : last_is b l -> last l d = b.
Proof. intros [pre ->]. apply last_last. Qed.

(* ---- assembly ---- *)
Theorem sigma_open_iff_connected (g : mg nat) a b C :
  wf g -> is_acyclic g = true -> In a (nodes g) -> In b (nodes g) -> incl C (nodes g) -> ~ In a C -> ~ In b C ->
  (existsb (is_z_sigma_open false g C) (all_simple_paths_und (nodes g) (dir g ++ bid g) a b) = true <-> m_connected g C a b).
Proof.
  intros Hw Hac Ha Hb HC Na Nb.
  pose proof (acyclic_no_cycle g Hw Hac) as Hcyc. pose proof (acyclic_no_2cycle g Hw Hac) as Hno2.
  split.
  - intros He. apply existsb_exists in He. destruct He as [p [Hp Ho]]. eapply sigma_open_connected; eauto.
  - intros Hconn. apply (walk_spec_connected g a b C Hw Hno2 Ha Hb HC Na) in Hconn.
    unfold d_connected_spec in Hconn. apply existsb_exists in Hconn. destruct Hconn as [p [Hp HT]].
    pose proof (spaths_nodup_gen _ _ _ _ _ Hp) as Hnd.
    unfold all_simple_paths_und in Hp. apply spaths_sound in Hp. destruct Hp as [suf [-> [Hch Hl]]]. cbn [rev app] in *.
    assert (Haf : a < fresh g) by (apply fresh_gt; exact Ha). assert (Hbf : b < fresh g) by (apply fresh_gt; exact Hb).
    pose proof (Lp_shape g Hw (length suf) suf a b (le_n _) Hch Haf Hl Hbf) as HLp.
    set (p' := collapse g (a :: suf)).
    assert (Hhd : exists t', p' = a :: t') by (unfold p'; rewrite (collapse_head g a suf Haf); eexists; reflexivity).
    assert (Hlast : last_is b p') by (apply Lp_last; assumption).
    assert (Hchain : chainA (und_adj (dir g ++ bid g)) p') by (apply Lp_chain; assumption).
    assert (Hnd' : NoDup p') by (unfold p', collapse; apply NoDup_filter; exact Hnd).
    assert (Hincl : incl p' (nodes g)).
    { intros x Hx. unfold p', collapse in Hx. apply filter_In in Hx. destruct Hx as [Hx Hlt]. apply Nat.ltb_lt in Hlt.
      assert (HxL : In x (nodes (lat g))).
      { assert (HwL : wf (lat g)).
        { split; [|intros u v []]. intros u v Huv. apply (dirL g) in Huv. unfold lat. cbn [nodes]. rewrite !in_app_iff, !in_seq. destruct Huv as [Huv|Huv].
          - destruct Hw as [Hw' _]. apply Hw' in Huv. tauto.
          - apply (lat_edge g) in Huv. destruct Huv as [i [p0 [q0 [Hn [Hu Hx']]]]].
            assert (Hi : i < length (bid g)) by (apply nth_error_Some; congruence).
            apply nth_error_In in Hn. destruct Hw as [_ Hw']. apply Hw' in Hn. split; [right; lia|left; destruct Hx'; subst; tauto]. }
        apply (chain_nodes (lat g) HwL (a :: suf) a Hch eq_refl); [unfold lat; cbn [nodes]; apply in_or_app; left; exact Ha|exact Hx]. }
      unfold lat in HxL. cbn [nodes] in HxL. apply in_app_iff in HxL. destruct HxL as [HxL|HxL]; [exact HxL|apply in_seq in HxL; lia]. }
    apply existsb_exists. exists p'. split.
    + destruct Hhd as [t' Ep]. rewrite Ep in *. unfold all_simple_paths_und.
      apply (spaths_complete (und_adj (dir g ++ bid g)) b t' (length (nodes g)) [] a Hchain Hlast Hnd').
      pose proof (NoDup_incl_length Hnd' Hincl) as Hlen. cbn [length] in Hlen. lia.
    + unfold is_z_sigma_open. destruct Hhd as [t' Ep]. rewrite Ep. rewrite <- Ep.
      rewrite (proj2 (mem_false a C) Na). rewrite (last_of_last_is b a p' Hlast), (proj2 (mem_false b C) Nb). cbn [negb andb].
      unfold p'. inversion HLp as [x Hx|x y t Hx Hy He Ht|x u y t Hx Hu Hy Hux Huy Ht]; subst.
      * rewrite (collapse_head g a [] Haf). reflexivity.
      * rewrite (collapse_head g a (y :: t) Haf).
        apply (Lp_triples g Hw C (y :: t) Ht a a y t eq_refl); [right; split; [reflexivity|exact Hnd]|apply adm_dir; assumption|exact HT].
      * rewrite (collapse_head g a (u :: y :: t) Haf), (collapse_lat g u (y :: t) Hu).
        assert (Hay : a <> y) by (inversion Hnd as [|? ? Hn _]; intros ->; apply Hn; right; left; reflexivity).
        apply (Lp_triples g Hw C (y :: t) Ht a u y t eq_refl); [left; exact Hnd|apply adm_lat; assumption|].
        change (triples_ok (dir (lat g)) (ancestors_inclusive (lat g) C) C (a :: u :: y :: t)) with
          (tri (dir (lat g)) (ancestors_inclusive (lat g) C) C a u y && triples_ok (dir (lat g)) (ancestors_inclusive (lat g) C) C (u :: y :: t)) in HT.
        apply andb_true_iff in HT. apply HT.
Qed.

Theorem sigma_agrees_with_d_separation (g : mg nat) a b C :
  wf g -> is_acyclic g = true -> In a (nodes g) -> In b (nodes g) -> incl C (nodes g) -> ~ In a C -> ~ In b C ->
  are_sigma_separated false g a b C = d_separated_spec g a b C.
Proof.
  intros Hw Hac Ha Hb HC Na Nb. unfold are_sigma_separated, d_separated_spec. f_equal. apply bool_iff.
  rewrite (sigma_open_iff_connected g a b C Hw Hac Ha Hb HC Na Nb).
  symmetry. apply spec_iff_connected; try assumption. apply acyclic_no_2cycle; assumption.
Qed.
