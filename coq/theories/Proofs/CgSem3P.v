(* C18, semantic clause, part 3: one merge step keeps the invariant and the truth of the event; the loops; the initial parallel-worlds graph. *)
From Coq Require Import List Bool Arith Lia Permutation.
From Y0 Require Import Base.ListSet Graph.Closure Graph.MixedGraph Dsl.Syntax Dsl.Text Dsl.Build Alg.Cg
  Proofs.ClosureP Proofs.SurgeryP Proofs.SortP Sem.Scm Sem.CfSem Proofs.ScmP Proofs.CgSemP Proofs.CgSem2P.
Import ListNotations.

Section CgSem3.
  Variable g0 : mg nat.
  Context {D : Type} {eqD : EqB D}.
  Variable U : Type.
  Variable f : nat -> (nat -> D) -> U -> D.
  Variable rho : nat * bool -> D.
  Hypothesis rho_distinct : forall n, rho (n, false) <> rho (n, true).
  Hypothesis f_local : local g0 U f.
  Variable order : list nat.
  Hypothesis order_ok : is_topo g0 order = true.
  Variable u : U.
  Variable worlds : list world.

  Notation val := (val U f rho order u).
  Notation sol := (sol U f rho order u).
  Notation holds := (holds U f rho order u).
  Notation low := (low U f rho order u).
  Notation pos := (pos order).
  Notation Inv := (Inv g0 U f rho order u worlds).
  Notation evholds := (evholds U f rho order u).

  Record InvG (g : cgraph) (ev : event) : Prop := {
    ig_inv : Inv g ev;
    ig_wf : wf g;
    ig_rank : forall a b, In (a, b) (dir g) -> pos (vn a) < pos (vn b);
    ig_noloop : forall x, ~ In (x, x) (bid g) }.

  Section Merge.
    Variable g : cgraph.
    Variable ev : event.
    Hypothesis I : InvG g ev.
    Variable n1 n2 : var.
    Hypothesis H1 : In n1 (nodes g).
    Hypothesis Hne : n1 <> n2.
    Hypothesis Hvn : vn n1 = vn n2.

    Let g' := merged g n1 n2.

    Lemma merged_dir x y : In (x, y) (dir g') <-> (In (x, y) (dir g) /\ x <> n2 /\ y <> n2) \/ (x = n1 /\ In (n2, y) (dir g)).
    Proof. unfold g', merged, from_edges. cbn [dir]. rewrite In_dedup. apply In_mdirs. Qed.

    Lemma merged_nodes n : In n (nodes g') -> In n (nodes g) /\ n <> n2.
    Proof.
      destruct (ig_wf g ev I) as [Wd Wb]. unfold g', merged. intros Hn. apply nodes_from_edges in Hn. destruct Hn as [Hn|[Hn|Hn]].
      - unfold mnodes in Hn. apply filter_In in Hn. destruct Hn as [Hn Hc]. apply andb_true_iff in Hc. destruct Hc as [Hc _]. apply negb_true_iff in Hc. apply eqb_neq in Hc. auto.
      - apply In_endpoints in Hn. destruct Hn as [[x y] [He Hv]]. apply (proj1 (In_dedup _ _)) in He. apply In_mdirs in He. cbn [fst snd] in Hv.
        destruct He as [[He [Hx Hy]]|[-> He]].
        + destruct (Wd _ _ He) as [Nx Ny]. destruct Hv as [->| ->]; auto.
        + destruct (Wd _ _ He) as [_ Ny]. destruct Hv as [->| ->]; [auto|]. split; [exact Ny|]. intros ->. pose proof (ig_rank g ev I _ _ He). lia.
      - apply In_endpoints in Hn. destruct Hn as [[x y] [He Hv]]. apply In_mbids in He. cbn [fst snd] in Hv.
        destruct He as [[He [Hx Hy]]|[[-> [He Hy]]|[-> [He Hx]]]].
        + destruct (Wb _ _ He) as [Nx Ny]. destruct Hv as [->| ->]; auto.
        + destruct (Wb _ _ He) as [_ Ny]. destruct Hv as [->| ->]; [auto|]. split; [exact Ny|]. intros ->. apply (ig_noloop g ev I _ He).
        + destruct (Wb _ _ He) as [Nx _]. destruct Hv as [->| ->]; [|auto]. split; [exact Nx|]. intros ->. apply (ig_noloop g ev I _ He).
    Qed.

    Lemma merged_rank a b : In (a, b) (dir g') -> pos (vn a) < pos (vn b).
    Proof. intros H. apply merged_dir in H. destruct H as [[H _]|[-> H]]; [apply (ig_rank g ev I _ _ H)|rewrite Hvn; apply (ig_rank g ev I _ _ H)]. Qed.

    Lemma merged_noloop x : ~ In (x, x) (bid g').
    Proof.
      unfold g', merged, from_edges. cbn [bid]. intros H. apply In_mbids in H. destruct H as [[H _]|[[-> [_ H]]|[-> [_ H]]]]; [apply (ig_noloop g ev I _ H)|apply H; reflexivity|apply H; reflexivity].
    Qed.

    Lemma merged_uniq : uniq g'.
    Proof.
      intros q q' n Hq Hq' E. apply merged_dir in Hq, Hq'. pose proof (inv_uniq _ _ _ _ _ _ _ _ _ (ig_inv g ev I)) as Un.
      destruct Hq as [[Hq [Q1 Q2]]|[-> Hq]], Hq' as [[Hq' [Q1' Q2']]|[-> Hq']].
      - apply (Un q q' n Hq Hq' E).
      - exfalso. apply Q1. apply (Un q n2 n Hq Hq'). congruence.
      - exfalso. apply Q1'. apply (Un q' n2 n Hq' Hq). congruence.
      - reflexivity.
    Qed.

    (* every old edge into a surviving node has a counterpart from a node with the same name *)
    Lemma merged_parent q n : In (q, n) (dir g) -> n <> n2 -> (q <> n2 /\ In (q, n) (dir g')) \/ (q = n2 /\ In (n1, n) (dir g')).
    Proof.
      intros Hq Hn. destruct (eqb q n2) eqn:E; [apply eqb_true in E; subst q; right; split; [reflexivity|apply merged_dir; right; auto]|].
      apply eqb_neq in E. left. split; [exact E|apply merged_dir; left; auto].
    Qed.

    (* the invariant for the merged graph and any event that transfers its lower parts back to the old one *)
    Lemma merged_inv ev' :
      (low (pos (vn n1)) ev -> val n1 = val n2) ->
      (forall j, low j ev' -> low j ev) -> wnamed ev' -> NoDup (map fst ev') -> InvG g' ev'.
    Proof.
      intros Heq Hback Hnamed Hkeys. pose proof (ig_inv g ev I) as I0. constructor; [constructor| | |].
      - intros a b Hab. apply (proj1 (wf_from_edges (mnodes g n1 n2) (dedup (mdirs g n1 n2)) (mbids g n1 n2))). exact Hab.
      - intros n Hn. apply (inv_nodes _ _ _ _ _ _ _ _ _ I0). apply (merged_nodes n Hn).
      - exact merged_uniq.
      - intros n Hn Hfree p Hp Hlow. destruct (merged_nodes n Hn) as [Hn0 Hn2].
        destruct (inv_parents _ _ _ _ _ _ _ _ _ I0 n Hn0 Hfree p Hp (Hback _ Hlow)) as [q [Hq [Eq Vq]]].
        destruct (merged_parent q n Hq Hn2) as [[_ Hq']|[-> Hq']]; [exists q; auto|].
        exists n1. split; [exact Hq'|]. split; [congruence|]. rewrite <- Vq. apply Heq.
        apply (low_mono U f rho order u (pos (vn n1)) (pos (vn n))); [|apply Hback; exact Hlow].
        rewrite Hvn, Eq. apply Nat.lt_le_incl. apply (pos_parent g0 order order_ok). exact Hp.
      - exact Hnamed.
      - exact Hkeys.
      - apply wf_from_edges.
      - exact merged_rank.
      - exact merged_noloop.
    Qed.
  End Merge.

  (* ------------------------------------------------------------ one call of try_merge *)
  Definition StInv (ev0 : event) (st : cg_state) : Prop :=
    InvG (fst (fst st)) (snd (fst st)) /\ (if snd st then ~ evholds ev0 else (evholds ev0 <-> evholds (snd (fst st)))).

  Lemma lemma_24_facts g ev a b : lemma_24_holds g ev a b = true -> In a (nodes g) /\ In b (nodes g) /\ vn a = vn b.
  Proof.
    unfold lemma_24_holds, is_pw_equivalent, has_same_function. rewrite !andb_true_iff. intros [[Ha Hb] [[[Hbase _] _] _]].
    apply mem_In in Ha, Hb. apply eqb_true in Hbase. unfold base in Hbase. injection Hbase as E. auto.
  Qed.

  Lemma is_inconsistent_sym ev a b : is_inconsistent ev a b = is_inconsistent ev b a.
  Proof.
    unfold is_inconsistent. destruct (ev_get ev a) as [x|], (ev_get ev b) as [y|]; try reflexivity. f_equal.
    destruct (eqb x y) eqn:E1, (eqb y x) eqn:E2; try reflexivity.
    - apply eqb_true in E1. subst. rewrite eqb_refl in E2. discriminate.
    - apply eqb_true in E2. subst. rewrite eqb_refl in E1. discriminate.
  Qed.

  Lemma merge_step ev0 g ev n1 n2 :
    InvG g ev -> (evholds ev0 <-> evholds ev) -> In n1 (nodes g) -> n1 <> n2 -> vn n1 = vn n2 ->
    (low (pos (vn n1)) ev -> val n1 = val n2) ->
    StInv ev0 (if is_inconsistent ev n1 n2 then (merged g n1 n2, ev, true) else (merged g n1 n2, update_event ev n1 n2, false)).
  Proof.
    intros I Hev H1 Hne Hvn Heq. pose proof (ig_inv g ev I) as I0.
    pose proof (inv_keys _ _ _ _ _ _ _ _ _ I0) as keys. pose proof (inv_named _ _ _ _ _ _ _ _ _ I0) as named.
    destruct (is_inconsistent ev n1 n2) eqn:Einc; unfold StInv; cbn [fst snd].
    - split; [apply (merged_inv g ev I n1 n2 H1 Hne Hvn ev Heq); auto|].
      intros H0. apply (inconsistent_never U f rho rho_distinct order u ev n1 n2 keys named Hvn Heq Einc). apply Hev. exact H0.
    - destruct (ev_get ev n2) as [x|] eqn:E2.
      + assert (Hpr : ev_get ev n1 = None \/ ev_get ev n1 = Some x).
        { unfold is_inconsistent in Einc. rewrite E2 in Einc. destruct (ev_get ev n1) as [y|]; [|left; reflexivity]. right.
          apply negb_false_iff in Einc. apply eqb_true in Einc. congruence. }
        split.
        * apply (merged_inv g ev I n1 n2 H1 Hne Hvn _ Heq).
          -- intros j. apply (transfer_low_back U f rho order u ev n1 n2 x keys Hne Hvn E2 Hpr Heq).
          -- apply (transfer_named ev n1 n2 x keys named Hne Hvn E2 Hpr).
          -- apply (update_keys ev n1 n2 x keys Hne E2 Hpr).
        * rewrite Hev. apply (transfer_holds U f rho order u ev n1 n2 x keys Hne Hvn E2 Hpr Heq).
      + assert (Eu : update_event ev n1 n2 = ev) by (unfold update_event; rewrite E2; reflexivity). rewrite Eu.
        split; [apply (merged_inv g ev I n1 n2 H1 Hne Hvn ev Heq); auto|exact Hev].
  Qed.

  Lemma try_merge_inv ev0 st a b chk : a <> b -> StInv ev0 st -> StInv ev0 (try_merge st a b chk).
  Proof.
    intros Hab HS. destruct st as [[g ev] stop]. unfold try_merge. destruct stop; [exact HS|]. destruct HS as [I Hev]. cbn [fst snd] in I, Hev.
    destruct (lemma_24_holds g ev a b) eqn:E24; [|split; assumption].
    destruct (lemma_24_facts g ev a b E24) as [Ha [Hb Hvn]].
    assert (Heq : low (pos (vn a)) ev -> val a = val b).
    { intros Hl. apply (merge_equality g0 U f rho f_local order order_ok u worlds g ev a b (ig_inv g ev I) E24 Hl). }
    destruct (merge_pw_cases g a b) as [n1 [n2 [[[-> ->]|[-> ->]] Em]]]; rewrite Em.
    - replace (if chk then is_inconsistent ev a b else is_inconsistent ev a b) with (is_inconsistent ev a b) by (destruct chk; reflexivity).
      apply (merge_step ev0 g ev a b I Hev Ha Hab Hvn Heq).
    - replace (if chk then is_inconsistent ev a b else is_inconsistent ev b a) with (is_inconsistent ev b a) by (destruct chk; [apply is_inconsistent_sym|reflexivity]).
      apply (merge_step ev0 g ev b a I Hev Hb (fun E => Hab (eq_sym E)) (eq_sym Hvn)). rewrite <- Hvn. intros Hl. symmetry. apply Heq. exact Hl.
  Qed.
End CgSem3.
