From Coq Require Import List Bool Arith Relations.
From Y0 Require Import Base.ListSet Graph.Closure Graph.MixedGraph Dsl.Syntax Dsl.Build Alg.Id Alg.Cg Alg.IdStar
  Proofs.ClosureP Proofs.SurgeryP.
Import ListNotations.

(* ---------------------------------------------------------------- C18: structure of the counterfactual graph *)

(* when the construction does not report an inconsistency, the returned graph consists exactly of the ancestors
   (within the merged graph) of the relabelled event variables, and every relabelled event variable is a node *)
Theorem cg_result_is_ancestral g ev topo worlds cf' ev' :
  make_counterfactual_graph g ev topo worlds = (cf', Some ev') ->
  exists cf, cf' = subgraph cf (ancestors_inclusive cf (ev_keys ev')) /\
             (forall v, In v (nodes cf') <-> exists k, In k (ev_keys ev') /\ dpath cf v k) /\
             (forall k, In k (ev_keys ev') -> In k (nodes cf')).
Proof.
  unfold make_counterfactual_graph. destruct (violates_effectiveness ev); [discriminate|].
  destruct (fold_left _ topo _) as [[cf e] stop]. destruct stop; [discriminate|].
  intros E. inversion E; subst. exists cf. split; [reflexivity|]. split.
  - intros v. rewrite subgraph_nodes. apply ancestors_inclusive_spec.
  - intros k Hk. apply subgraph_nodes. apply ancestors_inclusive_spec. exists k. split; [exact Hk|apply rt_refl].
Qed.

(* an event whose own subscripts contradict its value is reported inconsistent (repaired code) *)
Theorem cg_effectiveness_violation_is_inconsistent g ev topo worlds :
  violates_effectiveness ev = true -> snd (make_counterfactual_graph g ev topo worlds) = None.
Proof. intros H. unfold make_counterfactual_graph. rewrite H. reflexivity. Qed.

(* ---------------------------------------------------------------- C07 / C08: entry behaviour of ID-star and IDC-star *)

Theorem id_star_empty_event g topo fuel : id_star g topo (S fuel) [] = [IdOk EOne].
Proof. reflexivity. Qed.

Theorem id_star_effectiveness_gives_zero g topo fuel ev :
  ev <> [] -> violates_axiom_of_effectiveness ev = true -> id_star g topo (S fuel) ev = [IdOk EZero].
Proof. intros Hne H. destruct ev; [congruence|]. cbn [id_star]. rewrite H. reflexivity. Qed.

(* IDC-star rejects (ValueError) whenever every ID-star result for the conditioning event alone is Zero *)
Theorem idc_star_rejects_impossible_conditions g topo fuel outcomes conditions :
  id_star g topo (S (4 * List.length (nodes g))) conditions = [IdOk EZero] ->
  idc_star g topo (S fuel) outcomes conditions = [IdCrash ValueError].
Proof. intros H. cbn [idc_star]. rewrite H. reflexivity. Qed.
