(* C04: m-connection in a mixed graph is d-connection (same walk form, no bidirected edges left) in the DAG obtained by
   replacing every bidirected edge with an unobserved common parent [lat g] of Graph/DSep.v. *)
From Coq Require Import List Bool Arith Lia Relations.
From Y0 Require Import Base.ListSet Graph.Closure Graph.MixedGraph Graph.DSep Graph.MSep Proofs.SurgeryP.
Import ListNotations.

Lemma latent_edges_spec base bs : forall k u x,
  In (u, x) (latent_edges base k bs) <->
  exists i p q, nth_error bs i = Some (p, q) /\ u = base + k + i /\ (x = p \/ x = q).
Proof.
  induction bs as [|[p0 q0] t IH]; intros k u x; cbn [latent_edges].
  - split; [intros []|intros [i [p [q [Hn _]]]]; destruct i; discriminate].
  - cbn [In]. rewrite IH. split.
    + intros [E|[E|[i [p [q [Hn [Hu Hx]]]]]]].
      * injection E as <- <-. exists 0, p0, q0. cbn. repeat split; auto; lia.
      * injection E as <- <-. exists 0, p0, q0. cbn. repeat split; auto; lia.
      * exists (S i), p, q. cbn. repeat split; auto; lia.
    + intros [i [p [q [Hn [Hu Hx]]]]]. destruct i as [|i]; cbn in Hn.
      * injection Hn as <- <-. subst u. replace (base + k + 0) with (base + k) by lia. destruct Hx as [->| ->]; auto.
      * right; right. exists i, p, q. repeat split; auto; lia.
Qed.

Lemma fresh_gt (g : mg nat) v : In v (nodes g) -> v < fresh g.
Proof.
  unfold fresh. induction (nodes g) as [|n t IH]; cbn [fold_right In]; [intros []|].
  intros [->|Hv]; [lia|]. specialize (IH Hv). lia.
Qed.

Section Lat.
  Variable g : mg nat.
  Hypothesis g_wf : wf g.
  Variables (a : nat) (C : list nat).
  Hypothesis a_node : In a (nodes g).
  Hypothesis C_nodes : incl C (nodes g).

  Let f := fresh g.
  Let L := lat g.

  Lemma dirL u x : In (u, x) (dir L) <-> In (u, x) (dir g) \/ In (u, x) (latent_edges f 0 (bid g)).
  Proof. unfold L, lat. cbn [dir]. apply in_app_iff. Qed.

  Lemma dir_lt u x : In (u, x) (dir g) -> u < f /\ x < f.
  Proof. intros Hd. destruct g_wf as [Hw _]. apply Hw in Hd. split; apply fresh_gt; tauto. Qed.
  Lemma bid_lt u x : In (u, x) (bid g) -> u < f /\ x < f.
  Proof. intros Hd. destruct g_wf as [_ Hw]. apply Hw in Hd. split; apply fresh_gt; tauto. Qed.

  Lemma lat_edge u x : In (u, x) (latent_edges f 0 (bid g)) <->
    exists i p q, nth_error (bid g) i = Some (p, q) /\ u = f + i /\ (x = p \/ x = q).
  Proof.
    rewrite latent_edges_spec. split; intros [i [p [q [Hn [Hu Hx]]]]]; exists i, p, q; (split; [exact Hn|split; [|exact Hx]]).
    - rewrite Hu, Nat.add_0_r. reflexivity.
    - rewrite Hu, Nat.add_0_r. reflexivity.
  Qed.

  Lemma C_lt x : In x C -> x < f.
  Proof. intros Hx. apply fresh_gt. apply C_nodes. exact Hx. Qed.

  (* ---- every active walk of the mixed graph is an active walk of the latent DAG ---- *)
  Lemma sim_fwd x m : mreach g C a x m -> mreach L C a x m.
  Proof.
    intros Hr. induction Hr as [|x m mx my y Hr IH Hs Hp]; [constructor|].
    assert (Hvia : forall i p q, nth_error (bid g) i = Some (p, q) -> (x = p /\ y = q) \/ (x = q /\ y = p) ->
                   mx = Head -> my = Head -> mreach L C a y Head).
    { intros i p q Hn Hxy -> ->.
      assert (Hux : In (f + i, x) (dir L)) by (apply dirL; right; apply lat_edge; exists i, p, q; intuition).
      assert (Huy : In (f + i, y) (dir L)) by (apply dirL; right; apply lat_edge; exists i, p, q; intuition).
      eapply mr_step; [eapply mr_step; [exact IH|apply st_bwd; exact Hux|exact Hp]|apply st_fwd; exact Huy|].
      unfold pass. intros Hc. apply C_lt in Hc. lia. }
    inversion Hs as [? ? Hi|? ? Hi|? ? Hi|? ? Hi]; subst.
    - eapply mr_step; [exact IH|apply st_fwd; apply dirL; left; exact Hi|exact Hp].
    - eapply mr_step; [exact IH|apply st_bwd; apply dirL; left; exact Hi|exact Hp].
    - apply In_nth_error in Hi. destruct Hi as [i Hi]. eapply Hvia; eauto.
    - apply In_nth_error in Hi. destruct Hi as [i Hi]. eapply Hvia; eauto.
  Qed.

  (* ---- and conversely ---- *)
  (* an observed state of the DAG walk is matched by the same state of the mixed walk, or by a stronger one *)
  Definition Cov (x : nat) (m : mark) : Prop :=
    mreach g C a x m \/ (m = Head /\ ~ In x C /\ mreach g C a x Tail).
  (* standing on the latent parent of the i-th bidirected edge: one of its ends was left through an arrowhead *)
  Definition LatInv (u : nat) : Prop :=
    exists i p q x m, nth_error (bid g) i = Some (p, q) /\ u = f + i /\ (x = p \/ x = q) /\
                      mreach g C a x m /\ pass C x m Head.

  Lemma no_edge_into_latent u x : In (x, u) (dir L) -> f <= u -> False.
  Proof.
    intros He Hu. apply dirL in He. destruct He as [He|He].
    - apply dir_lt in He. lia.
    - apply lat_edge in He. destruct He as [i [p [q [Hn [_ Hx]]]]]. apply nth_error_In in Hn. apply bid_lt in Hn.
      destruct Hx; lia.
  Qed.

  Lemma sim_bwd z mz : mreach L C a z mz -> (z < f -> Cov z mz) /\ (f <= z -> LatInv z).
  Proof.
    intros Hr. induction Hr as [|x m mx my y Hr [IHo IHl] Hs Hp].
    - split; [intros _; left; constructor|]. intros Hge. pose proof (fresh_gt g a a_node). unfold f in Hge. lia.
    - assert (HbidL : bid L = []) by reflexivity.
      destruct (Nat.lt_ge_cases x f) as [Hx|Hx].
      + (* from an observed node *)
        specialize (IHo Hx).
        split.
        * intros Hy.
          assert (Hstep : mstep g x mx my y).
          { inversion Hs as [? ? Hi|? ? Hi|? ? Hi|? ? Hi]; subst; try (rewrite HbidL in Hi; destruct Hi).
            - apply dirL in Hi. destruct Hi as [Hi|Hi]; [apply st_fwd; exact Hi|].
              apply lat_edge in Hi. destruct Hi as [i [_ [_ [_ [Hu _]]]]]. lia.
            - apply dirL in Hi. destruct Hi as [Hi|Hi]; [apply st_bwd; exact Hi|].
              apply lat_edge in Hi. destruct Hi as [i [_ [_ [_ [Hu _]]]]]. lia. }
          left. destruct IHo as [Hg|[-> [Hnc Hg]]].
          -- eapply mr_step; eauto.
          -- destruct mx; [contradiction|]. eapply mr_step; [exact Hg|exact Hstep|exact Hnc].
        * intros Hy.
          inversion Hs as [? ? Hi|? ? Hi|? ? Hi|? ? Hi]; subst; try (rewrite HbidL in Hi; destruct Hi).
          -- exfalso. eapply no_edge_into_latent; eauto.
          -- apply dirL in Hi. destruct Hi as [Hi|Hi]; [apply dir_lt in Hi; lia|].
             apply lat_edge in Hi. destruct Hi as [i [p [q [Hn [Hu Hxy]]]]].
             destruct IHo as [Hg|[-> [Hnc Hg]]]; [|contradiction].
             exists i, p, q, x, m. auto.
      + (* from a latent node: only down to one of its two children *)
        destruct (IHl Hx) as [i [p [q [x0 [m0 [Hn [Hu [Hx0 [Hg Hp0]]]]]]]]].
        inversion Hs as [? ? Hi|? ? Hi|? ? Hi|? ? Hi]; subst mx my; try (rewrite HbidL in Hi; destruct Hi).
        2:{ exfalso. eapply no_edge_into_latent; eauto. }
        apply dirL in Hi. destruct Hi as [Hi|Hi]; [apply dir_lt in Hi; lia|].
        apply lat_edge in Hi. destruct Hi as [i' [p' [q' [Hn' [Hu' Hy]]]]].
        assert (i' = i) by lia. subst i'. rewrite Hn in Hn'. injection Hn' as <- <-.
        assert (Hpq : In (p, q) (bid g)) by (eapply nth_error_In; eauto).
        split; [intros _|intros Hy'; apply bid_lt in Hpq; destruct Hy; lia].
        destruct (Nat.eq_dec y x0) as [->|Hne].
        * destruct m0; [left; exact Hg|right; auto].
        * left. eapply mr_step; [exact Hg| |exact Hp0].
          destruct Hx0 as [->| ->], Hy as [->| ->]; try congruence; [apply st_bi1|apply st_bi2]; exact Hpq.
  Qed.

  Theorem m_connected_lat b : In b (nodes g) -> (m_connected g C a b <-> m_connected L C a b).
  Proof.
    intros Hb. split; intros [m Hr].
    - exists m. apply sim_fwd. exact Hr.
    - destruct (sim_bwd b m Hr) as [Ho _]. destruct (Ho (fresh_gt g b Hb)) as [Hg|[_ [_ Hg]]]; [exists m|exists Tail]; exact Hg.
  Qed.
End Lat.
