(* The facts about structural causal models behind lines 2 and 3 of ID, against the formal semantics of Sem/Scm.v.
   Both are pointwise in the exogenous state u, hence hold for every distribution of u, i.e. in every SCM compatible with the graph:
   line 2 - the values of the ancestors of Y under do(ivs) are those of the submodel over G[An(Y)] under the treatments that lie in An(Y);
   line 3 - intervening in addition on nodes that are no ancestors of Y once the edges into X are cut changes the value of no ancestor of Y
            (rule 3 of the do-calculus in its functional form), for whatever values. *)
From Coq Require Import List Bool Arith Relations.
From Y0 Require Import Base.ListSet Graph.Closure Graph.MixedGraph Proofs.ClosureP Proofs.SurgeryP Sem.Scm Proofs.ScmP Dsl.Syntax Alg.Id.
Import ListNotations.

Lemma find_app_l {T} (p : T -> bool) l1 l2 : (forall i, In i l2 -> p i = false) -> find p (l1 ++ l2) = find p l1.
Proof.
  intros H. induction l1 as [|a t IH]; cbn [app find].
  - destruct (find p l2) eqn:E; [|reflexivity]. apply find_some in E. destruct E as [Hin Hp]. rewrite (H _ Hin) in Hp. discriminate.
  - destruct (p a); [reflexivity|exact IH].
Qed.

Lemma find_filter_name {T} (p q : T -> bool) l : (forall i, In i l -> p i = true -> q i = true) -> find p (filter q l) = find p l.
Proof.
  intros H. induction l as [|a t IH]; [reflexivity|]. cbn [filter find]. destruct (p a) eqn:Ep.
  - rewrite (H a (or_introl eq_refl) Ep). cbn [find]. rewrite Ep. reflexivity.
  - destruct (q a); cbn [find]; [rewrite Ep|]; apply IH; intros i Hi; apply H; right; exact Hi.
Qed.

Section IdSem.
  Variable g : mg nat.
  Context {D : Type}.
  Variable U : Type.
  Variable f : nat -> (nat -> D) -> U -> D.
  Variable rho : nat * bool -> D.
  Hypothesis f_local : local g U f.
  Variable order : list nat.
  Hypothesis order_ok : is_topo g order = true.

  (* ---- line 2 ---- *)
  Definition restrict_ivs (A : list nat) (ivs : list (nat * bool)) : list (nat * bool) := filter (fun i => mem (fst i) A) ivs.

  Lemma restrict_ivs_names A ivs v : In v (map fst (restrict_ivs A ivs)) <-> In v (inter (map fst ivs) A).
  Proof.
    unfold restrict_ivs. rewrite In_inter, !in_map_iff. split.
    - intros [i [Ei Hi]]. apply filter_In in Hi. destruct Hi as [Hi Hm]. apply mem_In in Hm. subst. split; [exists i; split; [reflexivity|exact Hi]|exact Hm].
    - intros [[i [Ei Hi]] HA]. exists i. split; [exact Ei|]. apply filter_In. split; [exact Hi|]. apply mem_In. rewrite Ei. exact HA.
  Qed.

  Theorem line2_same_values Y ivs u x x' :
    let A := ancestors_inclusive g Y in
    solution g U f rho ivs u x ->
    solution (subgraph g A) U f rho (restrict_ivs A ivs) u x' ->
    forall v, In v (nodes g) -> In v A -> x v = x' v.
  Proof.
    intros A Hs Hs'. apply (topo_ind g order (fun v => In v A -> x v = x' v) order_ok).
    intros v Hv IH Av. rewrite (Hs v Hv). rewrite (Hs' v (proj2 (subgraph_nodes g A v) Av)).
    assert (Ed : do_value rho (restrict_ivs A ivs) v = do_value rho ivs v).
    { unfold do_value, restrict_ivs. f_equal. apply find_filter_name. intros i _ Ei. apply Nat.eqb_eq in Ei. apply mem_In. rewrite Ei. exact Av. }
    rewrite Ed. destruct (do_value rho ivs v); [reflexivity|]. apply f_local. intros p Hp. apply IH; [exact Hp|].
    unfold A in *. apply ancestors_inclusive_spec in Av. destruct Av as [s [Hs0 Hd]]. apply ancestors_inclusive_spec. exists s. split; [exact Hs0|].
    eapply rt_trans; [|exact Hd]. apply rt_step. apply In_parents. exact Hp.
  Qed.

  (* ---- line 3 ---- *)
  Theorem line3_same_values X Y ivs extra u x x' :
    (forall v, In v X -> In v (map fst ivs)) ->
    (forall i, In i extra -> In (fst i) (get_no_effect_on_outcomes g X Y)) ->
    solution g U f rho ivs u x ->
    solution g U f rho (ivs ++ extra) u x' ->
    forall v, In v (nodes g) -> In v (ancestors_inclusive (remove_in_edges g X) Y) -> x v = x' v.
  Proof.
    intros HX Hextra Hs Hs'. set (A := ancestors_inclusive (remove_in_edges g X) Y).
    apply (solutions_agree g U f rho f_local order order_ok (fun v => In v A) ivs (ivs ++ extra) u x x' Hs Hs').
    - intros v Hv Av. unfold do_value. f_equal. symmetry. apply find_app_l. intros i Hi. apply Nat.eqb_neq. intros E.
      apply Hextra in Hi. unfold get_no_effect_on_outcomes in Hi. apply In_diff in Hi. destruct Hi as [_ Hn]. apply Hn. rewrite E. exact Av.
    - intros v p Hv Av Hnone Hp. unfold A in *. apply ancestors_inclusive_spec in Av. destruct Av as [s [Hs0 Hd]]. apply ancestors_inclusive_spec.
      exists s. split; [exact Hs0|]. eapply rt_trans; [|exact Hd]. apply rt_step. apply remove_in_edges_dir. split; [apply In_parents; exact Hp|].
      intros Hin. apply HX in Hin. apply in_map_iff in Hin. destruct Hin as [i [Ei Hi]]. unfold do_value in Hnone.
      destruct (find (fun j => Nat.eqb (fst j) v) ivs) eqn:Ef; [discriminate|]. pose proof (find_none _ _ Ef i Hi) as Hne. cbn in Hne.
      rewrite Ei, Nat.eqb_refl in Hne. discriminate.
  Qed.

  (* ---- Tian & Pearl's Lemma 3 (used by identify_district_variables, C17) in functional form ----
     Q[T] is the distribution of T under do(V \ T). With A = An(C) in G_T, what is done in addition to nodes outside A (in particular to T \ A)
     changes the value of no node of A at any exogenous state: hence Q[A] = sum_{T \ A} Q[T] in every model. *)
  Lemma find_app {T} (p : T -> bool) l1 l2 : find p (l1 ++ l2) = match find p l1 with Some a => Some a | None => find p l2 end.
  Proof. induction l1 as [|a t IH]; [reflexivity|]. cbn [app find]. destruct (p a); [reflexivity|exact IH]. Qed.

  Theorem lemma3_same_values (T C : list nat) ivs extra u x x' :
    (forall v, In v (nodes g) -> ~ In v T -> In v (map fst ivs)) ->
    (forall i, In i extra -> ~ In (fst i) (ancestors_inclusive (subgraph g T) C)) ->
    solution g U f rho ivs u x ->
    solution g U f rho (ivs ++ extra) u x' ->
    forall v, In v (nodes g) -> In v (ancestors_inclusive (subgraph g T) C) -> x v = x' v.
  Proof.
    intros Hout Hextra Hs Hs'. set (A := ancestors_inclusive (subgraph g T) C) in *.
    assert (Hfound : forall v, In v (map fst ivs) -> find (fun j => Nat.eqb (fst j) v) ivs <> None).
    { intros v Hin E. apply in_map_iff in Hin. destruct Hin as [i [Ei Hi]]. pose proof (find_none _ _ E i Hi) as Hne. cbn in Hne.
      rewrite Ei, Nat.eqb_refl in Hne. discriminate. }
    intros v Hv Av.
    apply (solutions_agree g U f rho f_local order order_ok (fun w => In w A \/ ~ In w T) ivs (ivs ++ extra) u x x' Hs Hs'); [| |exact Hv|left; exact Av].
    - intros w Hwn [Aw|Hnt]; unfold do_value; f_equal; rewrite find_app.
      + destruct (find (fun i => Nat.eqb (fst i) w) ivs) eqn:E; [reflexivity|]. symmetry.
        destruct (find (fun i => Nat.eqb (fst i) w) extra) eqn:E2; [|reflexivity]. apply find_some in E2. destruct E2 as [Hin Heq].
        apply Nat.eqb_eq in Heq. exfalso. apply (Hextra _ Hin). rewrite Heq. exact Aw.
      + destruct (find (fun i => Nat.eqb (fst i) w) ivs) eqn:E; [reflexivity|]. exfalso. apply (Hfound w (Hout w Hwn Hnt) E).
    - intros w p Hwn Aw Hnone Hp. apply In_parents in Hp.
      assert (HwT : In w T).
      { destruct (in_dec Nat.eq_dec w T) as [Hin|Hnin]; [exact Hin|]. exfalso. unfold do_value in Hnone.
        destruct (find (fun j => Nat.eqb (fst j) w) ivs) eqn:E; [discriminate|]. apply (Hfound w (Hout w Hwn Hnin) E). }
      destruct Aw as [Aw|Hnt]; [|contradiction].
      destruct (in_dec Nat.eq_dec p T) as [HpT|HpT]; [left|right; exact HpT].
      unfold A in *. apply ancestors_inclusive_spec in Aw. destruct Aw as [s [Hs0 Hd]]. apply ancestors_inclusive_spec. exists s. split; [exact Hs0|].
      eapply rt_trans; [|exact Hd]. apply rt_step. apply subgraph_dir. repeat split; assumption.
  Qed.

  (* the outcomes are among those nodes *)
  Lemma outcomes_in_their_ancestors (h : mg nat) Y y : In y Y -> In y (ancestors_inclusive h Y).
  Proof. intros Hy. apply ancestors_inclusive_spec. exists y. split; [exact Hy|apply rt_refl]. Qed.

  (* in terms of the solution computed along the order *)
  Corollary line3_same_outcomes X Y ivs extra u y :
    (forall v, In v X -> In v (map fst ivs)) ->
    (forall i, In i extra -> In (fst i) (get_no_effect_on_outcomes g X Y)) ->
    In y Y -> In y (nodes g) ->
    solve U f rho order ivs u y = solve U f rho order (ivs ++ extra) u y.
  Proof.
    intros HX He Hy Hn. apply (line3_same_values X Y ivs extra u _ _ HX He); [apply (solution_exists g U f rho f_local order order_ok)..|exact Hn|].
    apply outcomes_in_their_ancestors. exact Hy.
  Qed.
End IdSem.
