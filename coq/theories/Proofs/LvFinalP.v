(* C16, part 4: redundant latents; reading the mixed graph off a DAG whose latents are exogenous; the theorem:
   the graph read off the simplified DAG is the latent projection of the original DAG. *)
From Coq Require Import List Bool Arith Lia Permutation Relations.
From Y0 Require Import Base.ListSet Graph.Closure Graph.MixedGraph Graph.DSep Graph.LatentDag
  Proofs.ClosureP Proofs.SurgeryP Proofs.CondIndP Proofs.LatentDagP Proofs.LvProjP Proofs.LvFoldP Proofs.LvRemoveP.
Import ListNotations.

Lemma forallb_false_ex {T} (p : T -> bool) l : forallb p l = false -> exists x, In x l /\ p x = false.
Proof.
  induction l as [|a t IH]; [discriminate|]. cbn [forallb]. destruct (p a) eqn:E; cbn [andb]; intros H.
  - destruct (IH H) as [x [Hx Hp]]. exists x. split; [right; exact Hx|exact Hp].
  - exists a. split; [left; reflexivity|exact E].
Qed.

Lemma NoDup_strict_length (l1 l2 : list nat) x : NoDup l1 -> incl l1 l2 -> In x l2 -> ~ In x l1 -> length l1 < length l2.
Proof.
  intros Hnd Hi Hx Hn. assert (H : NoDup (x :: l1)) by (constructor; assumption).
  assert (Hi' : incl (x :: l1) l2) by (intros y [<-|Hy]; [exact Hx|apply Hi; exact Hy]).
  pose proof (NoDup_incl_length H Hi') as Hl. cbn [length] in Hl. lia.
Qed.

Section Redundant.
  Variable d : lv.
  Hypothesis Hwf : lwf d.

  Notation ch := (lsuccs d).

  Lemma ch_NoDup l : NoDup (ch l).
  Proof. unfold lsuccs. apply NoDup_dedup. Qed.

  Lemma ch_bound l : length (ch l) <= length (ledges d).
  Proof.
    rewrite <- (map_length snd (ledges d)). apply NoDup_incl_length; [apply ch_NoDup|].
    intros c Hc. apply In_lsuccs' in Hc. apply in_map_iff. exists (l, c). split; [reflexivity|exact Hc].
  Qed.

  Lemma redundant_spec l : In l (redundant d) <->
    latp d l /\ exists r, latp d r /\ ((set_equiv (ch l) (ch r) /\ r < l) \/ (incl (ch l) (ch r) /\ ~ incl (ch r) (ch l))).
  Proof.
    unfold redundant, latp. rewrite filter_In, existsb_exists. split; intros [Hl [r [Hr Hc]]]; (split; [exact Hl|]); exists r; (split; [exact Hr|]).
    - cbv zeta in Hc. apply orb_true_iff in Hc. destruct Hc as [Hc|Hc]; apply andb_true_iff in Hc; destruct Hc as [H1 H2].
      + left. split; [apply set_eqb_equiv; exact H1|apply Nat.ltb_lt; exact H2].
      + right. split; [apply subset_incl; exact H1|]. apply negb_true_iff in H2. intros F. apply subset_incl in F. congruence.
    - cbv zeta. apply orb_true_iff. destruct Hc as [[H1 H2]|[H1 H2]]; [left|right]; apply andb_true_iff; split.
      + apply set_eqb_equiv. exact H1. + apply Nat.ltb_lt. exact H2.
      + apply subset_incl. exact H1.
      + apply negb_true_iff. destruct (subset (ch r) (ch l)) eqn:E; [|reflexivity]. apply subset_incl in E. contradiction.
  Qed.

  Let B := length (ledges d).
  Let T := S (fold_right Nat.max 0 (llat d)).

  Lemma lat_lt_T l : latp d l -> l < T.
  Proof. intros Hl. unfold T. pose proof (fold_max_ge (llat d) l Hl). lia. Qed.

  (* every latent is dominated by one that is kept *)
  Lemma dominator n : forall l, latp d l -> (B - length (ch l)) * T + l < n ->
    exists r, latp d r /\ ~ In r (redundant d) /\ incl (ch l) (ch r).
  Proof.
    induction n as [|n IH]; intros l Hl Hm; [lia|].
    destruct (in_dec Nat.eq_dec l (redundant d)) as [Hin|Hnin]; [|exists l; split; [exact Hl|split; [exact Hnin|apply incl_refl]]].
    apply redundant_spec in Hin. destruct Hin as [_ [r0 [Hr0 Hc]]].
    pose proof (lat_lt_T l Hl) as HlT. pose proof (lat_lt_T r0 Hr0) as HrT. pose proof (ch_bound l) as Hbl. pose proof (ch_bound r0) as Hbr. fold B in Hbl, Hbr.
    assert (Hsmall : (B - length (ch r0)) * T + r0 < n /\ incl (ch l) (ch r0)).
    { destruct Hc as [[Heq Hlt]|[Hsub Hnsub]].
      - assert (Hlen : length (ch l) = length (ch r0)).
        { apply Permutation_length. apply NoDup_Permutation; [apply ch_NoDup|apply ch_NoDup|exact Heq]. }
        split; [rewrite <- Hlen; lia|intros x Hx; apply Heq; exact Hx].
      - split; [|exact Hsub].
        assert (Hex : exists x, In x (ch r0) /\ ~ In x (ch l)).
        { destruct (subset (ch r0) (ch l)) eqn:E; [apply subset_incl in E; contradiction|].
          unfold subset in E. apply forallb_false_ex in E. destruct E as [x [Hx Hp]]. exists x. split; [exact Hx|apply mem_false; exact Hp]. }
        destruct Hex as [x [Hx Hnx]]. pose proof (NoDup_strict_length _ _ x (ch_NoDup l) Hsub Hx Hnx) as Hlt. nia. }
    destruct Hsmall as [Hm' Hsub]. destruct (IH r0 Hr0 Hm') as [r [Hr [Hnr Hinc]]].
    exists r. split; [exact Hr|]. split; [exact Hnr|]. intros x Hx. apply Hinc. apply Hsub. exact Hx.
  Qed.

  Hypothesis Hex : all_exo d.

  Theorem remove_redundant_result :
    let r := remove_redundant_latents d in lwf r /\ same_proj d r /\ all_exo r.
  Proof.
    cbv zeta. unfold remove_redundant_latents.
    assert (HS : incl (redundant d) (llat d)) by (intros x Hx; apply redundant_spec in Hx; apply Hx).
    split; [apply rm_lwf; assumption|]. split.
    - apply remove_same_proj; [exact HS| |].
      + intros x y Hp Hx Hy. apply lp_edge. apply rm_E. split; [apply exo_path; assumption|tauto].
      + intros l a b Hl Hln Hpa Hpb _ _ _.
        destruct (dominator (S ((B - length (ch l)) * T + l)) l Hl (Nat.lt_succ_diag_r _)) as [r [Hr [Hnr Hinc]]].
        apply (exo_path d l a Hwf Hex) in Hpa. apply (exo_path d l b Hwf Hex) in Hpb.
        exists r. split; [exact Hr|]. split; [apply (proj2 Hwf); exact Hr|]. split; [exact Hnr|].
        split; apply lp_edge; apply In_lsuccs'; apply Hinc; apply In_lsuccs'; assumption.
    - intros K HK. apply rm_lat in HK. apply rm_exo. apply Hex. tauto.
  Qed.
End Redundant.

(* ---- reading a mixed graph off a DAG ---- *)
Lemma In_latent_nodes d l : In l (filter (fun v => mem v (llat d)) (lnodes d)) <-> In l (lnodes d) /\ latp d l.
Proof. rewrite filter_In, mem_In. tauto. Qed.

Lemma umem_spec (e : nat * nat) es : umem e es = true <-> In e es \/ In (swap e) es.
Proof. unfold umem. rewrite orb_true_iff, !mem_In. tauto. Qed.

Section ReadOff.
  Variable s : lv.
  Hypothesis Hwf : lwf s.
  Hypothesis Hex : all_exo s.

  Lemma edge_target_observed u c : Ed s u c -> obsp s c.
  Proof.
    intros He. unfold obsp, observed. apply In_diff. split; [apply (proj1 Hwf) in He; tauto|]. intros Hl. exact (Hex c Hl u He).
  Qed.

  Lemma from_dir u c : In (u, c) (dir (from_lv s)) <-> DirP s u c.
  Proof.
    unfold from_lv, from_edges. cbn [dir]. rewrite in_flat_map. split.
    - intros [u' [Hu Hc]]. apply in_map_iff in Hc. destruct Hc as [c' [E Hc]]. injection E as -> ->. apply In_lsuccs' in Hc.
      split; [exact Hu|]. split; [eapply edge_target_observed; exact Hc|apply lp_edge; exact Hc].
    - intros [Hu [Hc Hp]]. exists u. split; [exact Hu|]. apply in_map_iff. exists c. split; [reflexivity|].
      apply In_lsuccs'. apply exo_path; assumption.
  Qed.

  Lemma from_bid_sound a b : In (a, b) (bid (from_lv s)) -> BidP s a b.
  Proof.
    unfold from_lv, from_edges. cbn [bid]. rewrite in_flat_map. intros [l [Hl Hp]]. apply In_latent_nodes in Hl. destruct Hl as [Hln Hl].
    pose proof (pairs_distinct (lsuccs s l) a b (NoDup_dedup _) Hp) as Hne. apply In_pairs in Hp. destruct Hp as [Ha Hb].
    apply In_lsuccs' in Ha, Hb. split; [eapply edge_target_observed; exact Ha|]. split; [eapply edge_target_observed; exact Hb|]. split; [exact Hne|].
    exists l. repeat split; try assumption; apply lp_edge; assumption.
  Qed.

  Lemma from_bid_complete a b : BidP s a b -> In (a, b) (bid (from_lv s)) \/ In (b, a) (bid (from_lv s)).
  Proof.
    intros [_ [_ [Hne [l [Hl [Hln [Hpa Hpb]]]]]]]. apply (exo_path s l a Hwf Hex) in Hpa. apply (exo_path s l b Hwf Hex) in Hpb.
    unfold from_lv, from_edges. cbn [bid].
    destruct (pairs_complete (lsuccs s l) a b) as [Hp|Hp]; [apply In_lsuccs'; exact Hpa|apply In_lsuccs'; exact Hpb|exact Hne| |];
      [left|right]; apply in_flat_map; exists l; (split; [apply In_latent_nodes; auto|exact Hp]).
  Qed.

  Lemma from_nodes x : In x (nodes (from_lv s)) <-> obsp s x.
  Proof.
    unfold from_lv. rewrite nodes_from_edges. split; [|intros Hx; left; exact Hx].
    intros [Hx|[Hx|Hx]]; [exact Hx| |]; apply In_endpoints in Hx; destruct Hx as [[a b] [He Hx]]; cbn [fst snd] in Hx.
    - assert (Hd : DirP s a b) by (apply from_dir; exact He). destruct Hd as [Ha [Hb _]]. destruct Hx as [<-|<-]; assumption.
    - assert (Hd : BidP s a b) by (apply from_bid_sound; exact He). destruct Hd as [Ha [Hb _]]. destruct Hx as [<-|<-]; assumption.
  Qed.
End ReadOff.

(* ---- the specification, in terms of the same relations ---- *)
Section Spec.
  Variable d : lv.
  Notation lsrc := (filter (fun e : nat * nat => mem (fst e) (llat d)) (ledges d)).

  Lemma lsrc_edge x y : In (x, y) lsrc <-> latp d x /\ Ed d x y.
  Proof. rewrite filter_In, mem_In. cbn [fst]. unfold latp, Ed. tauto. Qed.

  Lemma reach_to_path x y : reachable lsrc x y -> x = y \/ (latp d x /\ LPath d x y).
  Proof.
    intros Hr. apply clos_rt_rt1n in Hr. induction Hr as [x|x x' y Hxx' _ IH]; [left; reflexivity|right].
    apply lsrc_edge in Hxx'. destruct Hxx' as [Hl He]. split; [exact Hl|].
    destruct IH as [<-|[Hl' Hp]]; [apply lp_edge; exact He|eapply lp_step; eauto].
  Qed.

  Lemma path_to_reach x y : LPath d x y -> latp d x -> reachable lsrc x y.
  Proof.
    intros Hp. induction Hp as [u v He|u l v He Hl Hp IH]; intros Hu.
    - apply rt_step. apply lsrc_edge. auto.
    - eapply rt_trans; [apply rt_step; apply lsrc_edge; split; [exact Hu|exact He]|apply IH; exact Hl].
  Qed.

  Lemma through_spec u c : In c (through_latents d u) <-> LPath d u c.
  Proof.
    unfold through_latents. rewrite reach_spec. split.
    - intros [x [Hx Hr]]. apply In_lsuccs' in Hx. apply reach_to_path in Hr.
      destruct Hr as [<-|[Hl Hp]]; [apply lp_edge; exact Hx|eapply lp_step; eauto].
    - intros Hp. destruct Hp as [u v He|u l v He Hl Hp].
      + exists v. split; [apply In_lsuccs'; exact He|apply rt_refl].
      + exists l. split; [apply In_lsuccs'; exact He|apply path_to_reach; assumption].
  Qed.

  Lemma proj_dir u c : In (u, c) (dir (latent_projection d)) <-> DirP d u c.
  Proof.
    unfold latent_projection, from_edges. cbn [dir]. rewrite in_flat_map. unfold DirP, obsp. split.
    - intros [u' [Hu Hc]]. apply in_map_iff in Hc. destruct Hc as [c' [E Hc]]. injection E as -> ->. apply In_inter in Hc.
      destruct Hc as [Hc Ho]. apply through_spec in Hc. auto.
    - intros [Hu [Hc Hp]]. exists u. split; [exact Hu|]. apply in_map_iff. exists c. split; [reflexivity|]. apply In_inter. split; [apply through_spec; exact Hp|exact Hc].
  Qed.

  Lemma proj_bid_sound a b : In (a, b) (bid (latent_projection d)) -> BidP d a b.
  Proof.
    unfold latent_projection, from_edges. cbn [bid]. rewrite in_flat_map. intros [l [Hl Hp]]. apply In_latent_nodes in Hl. destruct Hl as [Hln Hl].
    assert (Hnd : NoDup (inter (through_latents d l) (observed d))) by (unfold inter; apply NoDup_filter; apply NoDup_reach).
    pose proof (pairs_distinct _ a b Hnd Hp) as Hne. apply In_pairs in Hp. destruct Hp as [Ha Hb]. apply In_inter in Ha, Hb.
    destruct Ha as [Ha Hao]. destruct Hb as [Hb Hbo]. apply through_spec in Ha, Hb.
    split; [exact Hao|]. split; [exact Hbo|]. split; [exact Hne|]. exists l. auto.
  Qed.

  Lemma proj_bid_complete a b : BidP d a b -> In (a, b) (bid (latent_projection d)) \/ In (b, a) (bid (latent_projection d)).
  Proof.
    intros [Ha [Hb [Hne [l [Hl [Hln [Hpa Hpb]]]]]]]. unfold latent_projection, from_edges. cbn [bid].
    destruct (pairs_complete (inter (through_latents d l) (observed d)) a b) as [Hp|Hp];
      [apply In_inter; split; [apply through_spec; exact Hpa|exact Ha]|apply In_inter; split; [apply through_spec; exact Hpb|exact Hb]|exact Hne| |];
      [left|right]; apply in_flat_map; exists l; (split; [apply In_latent_nodes; auto|exact Hp]).
  Qed.

  Lemma proj_nodes x : In x (nodes (latent_projection d)) <-> obsp d x.
  Proof.
    unfold latent_projection. rewrite nodes_from_edges. split; [|intros Hx; left; exact Hx].
    intros [Hx|[Hx|Hx]]; [exact Hx| |]; apply In_endpoints in Hx; destruct Hx as [[a b] [He Hx]]; cbn [fst snd] in Hx.
    - assert (Hd : DirP d a b) by (apply proj_dir; exact He). destruct Hd as [Ha [Hb _]]. destruct Hx as [<-|<-]; assumption.
    - assert (Hd : BidP d a b) by (apply proj_bid_sound; exact He). destruct Hd as [Ha [Hb _]]. destruct Hx as [<-|<-]; assumption.
  Qed.
End Spec.

(* ---- the theorem ---- *)
Theorem simplification_is_the_latent_projection (d : lv) :
  lwf d -> NoDup (lnodes d) -> (forall K, latp d K -> ~ In (prime K) (lnodes d)) ->
  is_acyclic (MG (lnodes d) (ledges d) []) = true ->
  mg_eqb (from_lv (simplify_latent_dag d)) (latent_projection d) = true.
Proof.
  intros Hwf Hnd Hfresh Hac. unfold simplify_latent_dag.
  destruct (transform_result d Hwf Hnd Hfresh Hac) as [W1 [P1 I1]].
  destruct (remove_widows_result _ W1 I1) as [W2 [P2 X2]].
  destruct (remove_unidirectional_result _ W2 X2) as [W3 [P3 X3]].
  destruct (remove_redundant_result _ W3 X3) as [W4 [P4 X4]].
  set (s := remove_redundant_latents (remove_unidirectional_latents (remove_widow_latents (transform_latents_with_parents d)))) in *.
  assert (HP : same_proj d s) by (eapply same_proj_trans; [exact P1|eapply same_proj_trans; [exact P2|eapply same_proj_trans; [exact P3|exact P4]]]).
  destruct HP as [Ho [Hd Hb]].
  unfold mg_eqb. rewrite !andb_true_iff. repeat split.
  - apply set_eqb_equiv. intros x. rewrite (from_nodes s W4 X4), proj_nodes. symmetry. apply Ho.
  - apply set_eqb_equiv. intros [u c]. rewrite (from_dir s W4 X4), proj_dir. symmetry. apply Hd.
  - unfold usubset. apply forallb_forall. intros [a b] He. apply umem_spec. cbn [swap fst snd].
    apply (from_bid_sound s W4 X4) in He. apply Hb in He. apply proj_bid_complete. exact He.
  - unfold usubset. apply forallb_forall. intros [a b] He. apply umem_spec. cbn [swap fst snd].
    apply proj_bid_sound in He. apply Hb in He. apply (from_bid_complete s W4 X4). exact He.
Qed.
