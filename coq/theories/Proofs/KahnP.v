(* Kahn's algorithm (the model of the acyclicity test) fails on a graph with a self-loop or a 2-cycle. *)
From Coq Require Import List Bool Arith Lia.
From Y0 Require Import Base.ListSet Graph.MixedGraph.
Import ListNotations.

Section KahnP.
  Context {A : Type} `{EqB A}.

  Lemma kahn_stuck fuel : forall (remaining : list A) es acc u v,
    In u remaining -> In v remaining -> In (u, v) es -> In (v, u) es -> kahn fuel remaining es acc = None.
  Proof.
    induction fuel as [|f IH]; intros remaining es acc u v Hu Hv Huv Hvu; cbn [kahn].
    - destruct remaining; [destruct Hu|reflexivity].
    - destruct (find _ remaining) as [w|] eqn:Ef; [|destruct remaining; [destruct Hu|reflexivity]].
      apply find_some in Ef. destruct Ef as [Hw Hno]. apply negb_true_iff in Hno.
      assert (Hnot : forall x y, In (y, x) es -> x <> w).
      { intros x y Hyx ->. assert (Ht : existsb (fun e : A * A => eqb (snd e) w) es = true).
        { apply existsb_exists. exists (y, w). split; [exact Hyx|apply eqb_refl]. }
        congruence. }
      pose proof (Hnot u v Hvu) as Huw. pose proof (Hnot v u Huv) as Hvw.
      apply (IH _ _ _ u v).
      + apply filter_In. split; [exact Hu|]. apply negb_true_iff. apply eqb_neq. exact Huw.
      + apply filter_In. split; [exact Hv|]. apply negb_true_iff. apply eqb_neq. exact Hvw.
      + apply filter_In. split; [exact Huv|]. apply negb_true_iff. apply eqb_neq. exact Huw.
      + apply filter_In. split; [exact Hvu|]. apply negb_true_iff. apply eqb_neq. exact Hvw.
  Qed.

  Theorem acyclic_no_2cycle (g : mg A) : wf g -> is_acyclic g = true ->
    forall u v, In (u, v) (dir g) -> ~ In (v, u) (dir g).
  Proof.
    intros [Hw _] Hac u v Huv Hvu. unfold is_acyclic, topological_sort in Hac.
    rewrite (kahn_stuck (length (nodes g)) (nodes g) (dir g) [] u v) in Hac; try assumption; try discriminate.
    - apply Hw in Huv. tauto.
    - apply Hw in Huv. tauto.
  Qed.
End KahnP.

(* the general case: the acyclicity test fails on every graph with a directed cycle *)
From Coq Require Import Relations.
Section KahnCycle.
  Context {A : Type} `{EqB A}.

  Lemma kahn_stuck_set fuel : forall (remaining : list A) es acc (S : A -> Prop),
    (exists x, S x) -> (forall x, S x -> In x remaining) -> (forall x, S x -> exists y, S y /\ In (y, x) es) ->
    kahn fuel remaining es acc = None.
  Proof.
    induction fuel as [|f IH]; intros remaining es acc S [x0 Hx0] Hin Hpred; cbn [kahn].
    - destruct remaining; [destruct (Hin x0 Hx0)|reflexivity].
    - destruct (find _ remaining) as [w|] eqn:Ef; [|destruct remaining; [destruct (Hin x0 Hx0)|reflexivity]].
      apply find_some in Ef. destruct Ef as [Hw Hno]. apply negb_true_iff in Hno.
      assert (HwS : forall x, S x -> x <> w).
      { intros x Hx ->. destruct (Hpred w Hx) as [y [_ Hy]].
        assert (Ht : existsb (fun e : A * A => eqb (snd e) w) es = true) by (apply existsb_exists; exists (y, w); split; [exact Hy|apply eqb_refl]).
        congruence. }
      apply (IH _ _ _ S).
      + exists x0. exact Hx0.
      + intros x Hx. apply filter_In. split; [apply Hin; exact Hx|]. apply negb_true_iff. apply eqb_neq. apply HwS. exact Hx.
      + intros x Hx. destruct (Hpred x Hx) as [y [Hy Hyx]]. exists y. split; [exact Hy|]. apply filter_In. split; [exact Hyx|].
        apply negb_true_iff. apply eqb_neq. apply HwS. exact Hy.
  Qed.

  Theorem acyclic_no_cycle (g : mg A) : wf g -> is_acyclic g = true ->
    forall v, ~ clos_trans A (fun x y => In (x, y) (dir g)) v v.
  Proof.
    intros [Hw _] Hac v Hc. unfold is_acyclic, topological_sort in Hac.
    set (R := fun x y => In (x, y) (dir g)) in *.
    rewrite (kahn_stuck_set (length (nodes g)) (nodes g) (dir g) [] (fun x => clos_trans A R v x /\ clos_trans A R x v)) in Hac; [discriminate| | |].
    - exists v. split; exact Hc.
    - intros x [Hvx _]. apply clos_trans_tn1 in Hvx. destruct Hvx as [x Hyx|y x Hyx _]; apply Hw in Hyx; tauto.
    - intros x [Hvx Hxv]. apply clos_trans_tn1 in Hvx. destruct Hvx as [x Hyx|y x Hyx Hvy].
      + exists v. split; [split; exact Hc|exact Hyx].
      + exists y. split; [|exact Hyx]. apply clos_tn1_trans in Hvy. split; [exact Hvy|]. eapply t_trans; [apply t_step; exact Hyx|exact Hxv].
  Qed.
End KahnCycle.
