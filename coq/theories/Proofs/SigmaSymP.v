(* C20: the sigma-separation verdict is symmetric in the two nodes, for every mixed graph (cyclic or not). *)
From Coq Require Import List Bool Arith Lia.
From Y0 Require Import Base.ListSet Graph.Closure Graph.Paths Graph.MixedGraph Graph.Sigma
  Proofs.SurgeryP Proofs.SigmaP Proofs.MSepPathP Proofs.MSepShortP.
Import ListNotations.

Section SigmaSym.
  Context {A : Type} `{EqB A}.
  Notation mg := (mg A).
  Variable old : bool.
  Variable g : mg.
  Variable C : list A.

  Lemma th_sym l m r : triple_helper old g l m r C = triple_helper old g r m l C.
  Proof.
    unfold triple_helper, is_collider, is_non_collider_left_chain, is_non_collider_right_chain, is_non_collider_fork, cond_or_class.
    cbn [forallb]. rewrite !andb_true_r.
    destruct (has_either_edge g l m), (has_either_edge g r m), (only_directed_edge old g m l), (only_directed_edge old g m r),
      (negb (mem m C)), (mem m (sigma_class g l)), (mem m (sigma_class g r));
      cbn [andb orb]; try reflexivity;
      destruct (if old then mem m C else existsb (fun c => mem c (descendants_inclusive g [m])) C); reflexivity.
  Qed.

  Lemma thcf_sym l m r : triple_has_correct_form old g l m r C = triple_has_correct_form old g r m l C.
  Proof.
    unfold triple_has_correct_form. rewrite (th_sym l m r). f_equal.
    induction (dis_neighbors g m) as [|n t IH]; [reflexivity|]. cbn [existsb]. rewrite IH. f_equal.
    rewrite (th_sym l m n), (th_sym n m r). destruct (triple_helper old g n m l C), (triple_helper old g m n m C), (triple_helper old g r m n C); reflexivity.
  Qed.

  Lemma triples_all_snoc : forall p l m r,
    triples_all old g C (p ++ [l; m; r]) = triples_all old g C (p ++ [l; m]) && triple_has_correct_form old g l m r C.
  Proof.
    induction p as [|w p IH]; intros l m r.
    - cbn [app triples_all]. rewrite andb_true_r. reflexivity.
    - destruct p as [|y [|z p]].
      + cbn [app triples_all]. rewrite !andb_true_r. reflexivity.
      + specialize (IH l m r). cbn [app] in *. cbn [triples_all] in *. rewrite !andb_true_r in *. rewrite andb_assoc. reflexivity.
      + specialize (IH l m r). cbn [app] in *.
        change (triples_all old g C (w :: y :: z :: p ++ [l; m; r])) with
          (triple_has_correct_form old g w y z C && triples_all old g C (y :: z :: p ++ [l; m; r])).
        change (triples_all old g C (w :: y :: z :: p ++ [l; m])) with
          (triple_has_correct_form old g w y z C && triples_all old g C (y :: z :: p ++ [l; m])).
        rewrite IH, andb_assoc. reflexivity.
  Qed.

  Lemma triples_all_short a b : triples_all old g C [a; b] = true.
  Proof. reflexivity. Qed.

  Lemma triples_all_rev : forall p, triples_all old g C (rev p) = triples_all old g C p.
  Proof.
    induction p as [|x p IH]; [reflexivity|]. destruct p as [|y [|z p]]; [reflexivity|reflexivity|].
    change (triples_all old g C (x :: y :: z :: p)) with (triple_has_correct_form old g x y z C && triples_all old g C (y :: z :: p)).
    rewrite <- IH. cbn [rev]. rewrite <- !app_assoc. cbn [app].
    rewrite (triples_all_snoc (rev p) z y x). rewrite (thcf_sym z y x). rewrite andb_comm. reflexivity.
  Qed.

  Lemma last_rev (x : A) p d : last (rev (x :: p)) d = x.
  Proof. cbn [rev]. apply last_last. Qed.

  Lemma open_rev p : is_z_sigma_open old g C (rev p) = is_z_sigma_open old g C p.
  Proof.
    destruct p as [|x p]; [reflexivity|].
    destruct (rev (x :: p)) as [|y q] eqn:Er; [cbn [rev] in Er; destruct (rev p); discriminate|].
    unfold is_z_sigma_open. rewrite <- Er, triples_all_rev.
    assert (Hy : y = last (x :: p) x).
    { assert (E : x :: p = rev (y :: q)) by (rewrite <- Er, rev_involutive; reflexivity). rewrite E. cbn [rev]. rewrite last_last. reflexivity. }
    assert (Hl : last (rev (x :: p)) y = x) by apply last_rev.
    rewrite Hl, Hy. rewrite (andb_comm (negb (mem (last (x :: p) x) C))). reflexivity.
  Qed.

  (* the enumerated simple paths from b to a are the reversals of those from a to b *)
  Lemma chain_rev (es : list (A * A)) : forall p, chainA (und_adj es) p -> chainA (und_adj es) (rev p).
  Proof.
    induction p as [|x p IH]; intros Hc; [exact Hc|]. destruct p as [|y p]; [exact Hc|].
    inversion Hc as [|? ? ? Hadj Hc']; subst. cbn [rev]. rewrite <- app_assoc. cbn [app].
    apply chain_app; [exact (IH Hc')|]. constructor; [|constructor]. apply In_und_adj. apply In_und_adj in Hadj. tauto.
  Qed.

  Lemma spaths_nodup (adj : A -> list A) tgt fuel : forall path_rev cur p,
    NoDup (cur :: path_rev) -> In p (spaths fuel adj path_rev cur tgt) -> NoDup p.
  Proof.
    induction fuel as [|f IH]; intros path_rev cur p Hnd Hp; cbn [spaths] in Hp.
    - destruct (eqb cur tgt); [|destruct Hp]. destruct Hp as [<-|[]]. apply NoDup_rev. exact Hnd.
    - destruct (eqb cur tgt); [destruct Hp as [<-|[]]; apply NoDup_rev; exact Hnd|].
      apply in_flat_map in Hp. destruct Hp as [n [_ Hp]]. destruct (mem n (cur :: path_rev)) eqn:Em; [destruct Hp|].
      apply (IH (cur :: path_rev) n p); [|exact Hp]. constructor; [apply mem_false; exact Em|exact Hnd].
  Qed.

  Lemma spaths_length (adj : A -> list A) tgt fuel : forall path_rev cur p,
    In p (spaths fuel adj path_rev cur tgt) -> length p <= length path_rev + 1 + fuel.
  Proof.
    induction fuel as [|f IH]; intros path_rev cur p Hp; cbn [spaths] in Hp.
    - destruct (eqb cur tgt); [|destruct Hp]. destruct Hp as [<-|[]]. rewrite rev_length. cbn [length]. lia.
    - destruct (eqb cur tgt); [destruct Hp as [<-|[]]; rewrite rev_length; cbn [length]; lia|].
      apply in_flat_map in Hp. destruct Hp as [n [_ Hp]]. destruct (mem n (cur :: path_rev)); [destruct Hp|].
      apply IH in Hp. cbn [length] in Hp. lia.
  Qed.

  Lemma rev_path_enumerated (ns : list A) es a b p :
    In p (all_simple_paths_und ns es a b) -> In (rev p) (all_simple_paths_und ns es b a).
  Proof.
    intros Hp. unfold all_simple_paths_und in *.
    pose proof (spaths_nodup _ _ _ [] a p (NoDup_cons a (@in_nil A a) (NoDup_nil A)) Hp) as Hnd.
    pose proof (spaths_length _ _ _ [] a p Hp) as Hlen. cbn [length] in Hlen.
    apply spaths_sound in Hp. destruct Hp as [suf [Ep [Hc [pre Hl]]]]. cbn [rev app] in Ep. subst p.
    assert (Hrev : rev (a :: suf) = b :: rev pre) by (rewrite Hl, rev_app_distr; reflexivity).
    rewrite Hrev.
    apply (spaths_complete (und_adj es) a (rev pre) (length ns) [] b).
    - rewrite <- Hrev. apply chain_rev. exact Hc.
    - rewrite <- Hrev. exists (rev suf). reflexivity.
    - cbn [rev app]. rewrite <- Hrev. apply NoDup_rev. exact Hnd.
    - assert (E : length (rev (a :: suf)) = length (b :: rev pre)) by (rewrite Hrev; reflexivity).
      rewrite rev_length in E. cbn [length] in E, Hlen. lia.
  Qed.

  Theorem sigma_symmetric a b : are_sigma_separated old g a b C = are_sigma_separated old g b a C.
  Proof.
    unfold are_sigma_separated. f_equal.
    assert (Hdir : forall x y, existsb (is_z_sigma_open old g C) (all_simple_paths_und (nodes g) (dir g ++ bid g) x y) = true ->
                   existsb (is_z_sigma_open old g C) (all_simple_paths_und (nodes g) (dir g ++ bid g) y x) = true).
    { intros x y Hx. apply existsb_exists in Hx. destruct Hx as [p [Hp Ho]]. apply existsb_exists. exists (rev p).
      split; [apply rev_path_enumerated; exact Hp|rewrite open_rev; exact Ho]. }
    destruct (existsb _ (all_simple_paths_und (nodes g) (dir g ++ bid g) a b)) eqn:E1.
    - symmetry. apply Hdir. exact E1.
    - destruct (existsb _ (all_simple_paths_und (nodes g) (dir g ++ bid g) b a)) eqn:E2; [|reflexivity].
      apply Hdir in E2. congruence.
  Qed.
End SigmaSym.
