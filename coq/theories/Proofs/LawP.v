(* Consequences of the laws of Dsl/Laws.v: sums commute (Fubini for finite sums), and summing a joint over any set of
   names leaves the joint of the remaining children, summed over the names that were not among the children. *)
From Coq Require Import List Bool Arith QArith Permutation Lia.
From Y0 Require Import Base.ListSet Dsl.Syntax Dsl.Build Dsl.Sem Dsl.Laws Proofs.SemP.
Import ListNotations.
Open Scope Q_scope.

Definition ext_fun (f : env -> Q) : Prop := forall r r', pointwise r r' -> f r == f r'.

Lemma upd_pointwise r r' n x : pointwise r r' -> pointwise (upd r n x) (upd r' n x).
Proof. intros H k. unfold upd. destruct (Nat.eqb k n); [reflexivity|apply H]. Qed.

Lemma upd_comm r n x k y : n <> k -> pointwise (upd (upd r n x) k y) (upd (upd r k y) n x).
Proof.
  intros Hne j. unfold upd. destruct (Nat.eqb j k) eqn:E1, (Nat.eqb j n) eqn:E2; try reflexivity.
  apply Nat.eqb_eq in E1, E2. subst. congruence.
Qed.

Lemma qsum_swap {S T} (g : S -> T -> Q) (l1 : list S) (l2 : list T) :
  qsum (map (fun x => qsum (map (fun y => g x y) l2)) l1) == qsum (map (fun y => qsum (map (fun x => g x y) l1)) l2).
Proof.
  induction l1 as [|a t IH]; cbn [map qsum fold_right].
  - symmetry. apply (qsum_zero l2).
  - fold (qsum (map (fun x => qsum (map (fun y => g x y) l2)) t)). rewrite IH.
    rewrite <- qsum_plus. apply qsum_ext. intros y _. reflexivity.
Qed.

Lemma filter_all {T} (p : T -> bool) l : (forall x, In x l -> p x = true) -> filter p l = l.
Proof.
  induction l as [|a t IH]; intros Hp; [reflexivity|]. cbn [filter]. rewrite (Hp a (or_introl eq_refl)). f_equal.
  apply IH. intros x Hx. apply Hp. right. exact Hx.
Qed.

Section LawP.
  Variable m : model.
  Hypothesis Hlaw : lawful m.

  Lemma sum_over_env ns : forall (f : env -> Q) r r', ext_fun f -> pointwise r r' -> sum_over m ns f r == sum_over m ns f r'.
  Proof.
    induction ns as [|n t IH]; intros f r r' Hf Hr; cbn [sum_over]; [apply Hf; exact Hr|].
    apply qsum_ext. intros x _. apply IH; [exact Hf|apply upd_pointwise; exact Hr].
  Qed.

  Lemma ext_sum_over ns f : ext_fun f -> ext_fun (sum_over m ns f).
  Proof. intros Hf r r' Hr. apply sum_over_env; assumption. Qed.

  Lemma ext_qsum_upd n f : ext_fun f -> ext_fun (fun r => qsum (map (fun x => f (upd r n x)) (dom m n))).
  Proof. intros Hf r r' Hr. apply qsum_ext. intros x _. apply Hf. apply upd_pointwise. exact Hr. Qed.

  (* a sum over one more name can be moved inside *)
  Lemma sum_over_swap ns : forall n (f : env -> Q) r, ext_fun f -> ~ In n ns ->
    qsum (map (fun x => sum_over m ns f (upd r n x)) (dom m n)) ==
    sum_over m ns (fun r' => qsum (map (fun x => f (upd r' n x)) (dom m n))) r.
  Proof.
    induction ns as [|k t IH]; intros n f r Hf Hn; cbn [sum_over]; [reflexivity|].
    assert (Hnk : n <> k) by (intros ->; apply Hn; left; reflexivity).
    assert (Hnt : ~ In n t) by (intros H; apply Hn; right; exact H).
    rewrite qsum_swap. apply qsum_ext. intros y _.
    rewrite <- (IH n f (upd r k y) Hf Hnt). apply qsum_ext. intros x _.
    apply sum_over_env; [exact Hf|apply upd_comm; exact Hnk].
  Qed.

  (* finite sums commute: the order of the summed names does not matter *)
  Lemma sum_over_perm ns ns' : Permutation ns ns' -> forall f r, ext_fun f -> sum_over m ns f r == sum_over m ns' f r.
  Proof.
    induction 1 as [|n l l' Hp IH|n k l|l l' l'' _ IH1 _ IH2]; intros f r Hf.
    - reflexivity.
    - cbn [sum_over]. apply qsum_ext. intros x _. apply IH. exact Hf.
    - destruct (Nat.eq_dec k n) as [->|Hne]; [reflexivity|].
      cbn [sum_over]. rewrite qsum_swap. apply qsum_ext. intros x _. apply qsum_ext. intros y _.
      apply sum_over_env; [exact Hf|apply upd_comm; exact Hne].
    - rewrite IH1, IH2; [reflexivity|exact Hf|exact Hf].
  Qed.

  (* ---- marginalising a joint ---- *)
  Definition joint (pop : option var) (l : list var) (r : env) : Q := match l with [] => 1 | _ => atom m pop l [] r end.
  Definition keepc (ns : list nat) (ch : list var) : list var := filter (fun c => negb (mem (vn c) ns)) ch.

  Lemma ext_joint pop l : ext_fun (joint pop l).
  Proof. intros r r' Hr. destruct l; [reflexivity|]. apply (law_ext m Hlaw). exact Hr. Qed.

  Lemma keepc_nil ch : keepc [] ch = ch.
  Proof. unfold keepc. apply filter_all. intros x _. reflexivity. Qed.

  Lemma keepc_cons n t ch : keepc (n :: t) ch = keepc [n] (keepc t ch).
  Proof.
    unfold keepc. induction ch as [|c u IH]; [reflexivity|]. cbn [filter].
    assert (Hm : mem (vn c) (n :: t) = eqb (vn c) n || mem (vn c) t) by reflexivity.
    assert (Hm1 : mem (vn c) [n] = eqb (vn c) n) by (cbn [mem existsb]; apply orb_false_r).
    rewrite Hm. destruct (mem (vn c) t) eqn:E2, (eqb (vn c) n) eqn:E1; cbn [orb negb filter]; rewrite ?Hm1, ?E1; cbn [negb]; rewrite IH; reflexivity.
  Qed.

  Lemma keepc_absent n t ch : ~ In n (names ch) -> keepc (n :: t) ch = keepc t ch.
  Proof.
    intros Hn. unfold keepc. apply filter_ext_in. intros c Hc. cbn [mem existsb].
    destruct (eqb (vn c) n) eqn:E; [|reflexivity]. apply eqb_true in E. exfalso. apply Hn. rewrite <- E. apply in_map. exact Hc.
  Qed.

  Lemma names_keepc_incl ns ch : incl (names (keepc ns ch)) (names ch).
  Proof. intros n Hn. unfold names, keepc in *. apply in_map_iff in Hn. destruct Hn as [c [<- Hc]]. apply filter_In in Hc. apply in_map. tauto. Qed.

  Lemma NoDup_names_keepc ns ch : NoDup (names ch) -> NoDup (names (keepc ns ch)).
  Proof.
    unfold names, keepc. induction ch as [|c t IH]; intros Hnd; [constructor|]. cbn [map filter] in *. inversion Hnd as [|? ? Hn Ht]; subst.
    destruct (negb (mem (vn c) ns)); [|apply IH; exact Ht]. cbn [map]. constructor; [|apply IH; exact Ht].
    intros Hin. apply Hn. apply in_map_iff in Hin. destruct Hin as [c' [E Hc']]. apply filter_In in Hc'. rewrite <- E. apply in_map. tauto.
  Qed.

  Lemma perm_front c ch : NoDup (names ch) -> In c ch -> Permutation ch (c :: keepc [vn c] ch).
  Proof.
    induction ch as [|a t IH]; intros Hnd Hin; [destruct Hin|]. cbn [names map] in Hnd. inversion Hnd as [|? ? Hn Ht]; subst.
    unfold keepc. cbn [filter mem existsb]. destruct Hin as [->|Hin].
    - rewrite eqb_refl. cbn [orb negb]. apply perm_skip.
      rewrite filter_all; [apply Permutation_refl|].
      intros x Hx. apply negb_true_iff. cbn [orb]. rewrite orb_false_r. destruct (eqb (vn x) (vn c)) eqn:E; [|reflexivity]. apply eqb_true in E. exfalso. apply Hn. rewrite <- E. apply in_map. exact Hx.
    - destruct (eqb (vn a) (vn c)) eqn:E.
      + apply eqb_true in E. exfalso. apply Hn. rewrite E. apply in_map. exact Hin.
      + cbn [orb negb]. eapply perm_trans; [apply perm_skip; apply (IH Ht Hin)|]. apply perm_swap.
  Qed.

  (* summing the joint over the name of one of its children *)
  Lemma marg_one pop ch c r : NoDup (names ch) -> In c ch ->
    qsum (map (fun x => joint pop ch (upd r (vn c) x)) (dom m (vn c))) == joint pop (keepc [vn c] ch) r.
  Proof.
    intros Hnd Hin. pose proof (perm_front c ch Hnd Hin) as Hp.
    assert (Hnd' : NoDup (names (c :: keepc [vn c] ch))).
    { eapply Permutation_NoDup; [apply Permutation_map; exact Hp|exact Hnd]. }
    cbn [names map] in Hnd'. inversion Hnd' as [|? ? Hn _]; subst.
    destruct ch as [|c0 t]; [destruct Hin|]. unfold joint at 1.
    rewrite (qsum_ext _ (fun x => atom m pop (c :: keepc [vn c] (c0 :: t)) [] (upd r (vn c) x))).
    2:{ intros x _. apply (law_perm m Hlaw); [exact Hp|apply Permutation_refl]. }
    destruct (keepc [vn c] (c0 :: t)) as [|d u] eqn:Ek; cbn [joint].
    - apply (law_total m Hlaw).
    - apply (law_marg m Hlaw); [discriminate|exact Hn].
  Qed.

  Theorem marg_many pop ns : NoDup ns -> forall ch r, NoDup (names ch) ->
    sum_over m ns (joint pop ch) r ==
    sum_over m (filter (fun n => negb (mem n (names ch))) ns) (joint pop (keepc ns ch)) r.
  Proof.
    induction ns as [|n t IH]; intros Hnd ch r Hch.
    - cbn [sum_over filter]. rewrite keepc_nil. reflexivity.
    - inversion Hnd as [|? ? Hn Ht]; subst. cbn [sum_over filter].
      rewrite (qsum_ext _ (fun x => sum_over m (filter (fun k => negb (mem k (names ch))) t) (joint pop (keepc t ch)) (upd r n x))).
      2:{ intros x _. apply IH; assumption. }
      set (t' := filter (fun k => negb (mem k (names ch))) t).
      assert (Hnt' : ~ In n t') by (intros H; apply Hn; apply filter_In in H; tauto).
      destruct (mem n (names ch)) eqn:Em; cbn [negb].
      + apply mem_In in Em. unfold names in Em. apply in_map_iff in Em. destruct Em as [c [Ec Hc]].
        assert (Hck : In c (keepc t ch)).
        { unfold keepc. apply filter_In. split; [exact Hc|]. rewrite Ec. apply negb_true_iff. apply mem_false. exact Hn. }
        rewrite (sum_over_swap t' n (joint pop (keepc t ch)) r (ext_joint pop _) Hnt').
        rewrite keepc_cons. apply sum_over_ext. intros r'. rewrite <- Ec.
        apply marg_one; [apply NoDup_names_keepc; exact Hch|exact Hck].
      + apply mem_false in Em. cbn [sum_over]. rewrite (keepc_absent n t ch Em). reflexivity.
  Qed.
End LawP.
