From Coq Require Import List Bool Arith.
From Y0 Require Import Base.ListSet Graph.Closure Graph.MixedGraph Dsl.Syntax Dsl.Build Alg.Id Alg.Tian
  Proofs.SurgeryP Proofs.DistrictsP.
Import ListNotations.

Lemma district_of_subgraph_incl (g : mg nat) S D : In D (districts (subgraph g S)) -> incl D S.
Proof.
  intros HD x Hx. apply (districts_within_nodes (subgraph g S) D (wf_from_edges _ _ _) HD) in Hx.
  apply subgraph_nodes in Hx. exact Hx.
Qed.

(* IDENTIFY fails only at a district T' (reached from T by repeatedly taking the district of C inside the
   ancestral set) whose ancestral set of C is T' itself and differs from C - Tian & Pearl's FAIL condition *)
Theorem tian_fail_only_when_ancestral_set_is_whole_district fuel : forall g C T q topo,
  identify_district_variables fuel g C T q topo = TFail ->
  exists T', incl T' T /\
             set_eqb (ancestors_inclusive (subgraph g T') C) T' = true /\
             set_eqb (ancestors_inclusive (subgraph g T') C) C = false.
Proof.
  induction fuel as [|f IH]; intros g C T q topo H; [discriminate|]. cbn [identify_district_variables] in H.
  destruct (negb (subset C T)); [discriminate|].
  destruct (negb (subset T topo)); [discriminate|].
  destruct (Nat.ltb 1 _); [discriminate|].
  destruct (negb (is_spf q || is_prob q)); [discriminate|].
  destruct (set_eqb (ancestors_inclusive (subgraph g T) C) C) eqn:EC.
  { destruct (compute_ancestral_set_q_value _ _ _ _); discriminate. }
  destruct (set_eqb (ancestors_inclusive (subgraph g T) C) T) eqn:ET.
  { exists T. split; [apply incl_refl|]. split; assumption. }
  destruct (subset C _ && subset _ T) eqn:ES; [|discriminate].
  destruct (find _ _) as [T'|] eqn:Ef; [|discriminate].
  assert (HT' : incl T' T).
  { apply find_some in Ef. destruct Ef as [Hin _]. apply district_of_subgraph_incl in Hin.
    apply andb_true_iff in ES. destruct ES as [_ ES]. apply subset_incl in ES.
    intros x Hx. apply ES. apply Hin in Hx. apply filter_In in Hx. destruct Hx as [_ Hm]. apply mem_In. exact Hm. }
  destruct (compute_c_factor _ _ _ _) eqn:Ecf; try discriminate;
    (apply IH in H; destruct H as [T'' [H1 [H2 H3]]]; exists T''; split; [|split; assumption]);
    intros x Hx; apply HT'; apply H1; exact Hx.
Qed.
