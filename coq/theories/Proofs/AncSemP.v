(* C19: every counterfactual ancestor W_z listed for Y_x (Def. 2.1) denotes the value W takes in the world of Y_x: at every exogenous state of
   every functional SCM over the graph, W_z = W_x. *)
From Coq Require Import List Bool Arith Lia Relations Permutation.
From Y0 Require Import Base.ListSet Graph.Closure Graph.MixedGraph Dsl.Syntax Dsl.Build Alg.Cg Alg.CtfAnc
  Proofs.ClosureP Proofs.SurgeryP Proofs.SortP Proofs.SumSimpP Sem.Scm Sem.CfSem Proofs.ScmP Proofs.MinimizeSemP Proofs.CgSemP Proofs.CgSem2P Proofs.CgSem4P.
Import ListNotations.

Lemma find_name_perm {T} (l l' : list (nat * T)) v : NoDup (map fst l) -> Permutation l l' ->
  find (fun i => Nat.eqb (fst i) v) l = find (fun i => Nat.eqb (fst i) v) l'.
Proof.
  intros Hn Hp. assert (Hn' : NoDup (map fst l')) by (eapply Permutation_NoDup; [apply Permutation_map; exact Hp|exact Hn]).
  destruct (find (fun i => Nat.eqb (fst i) v) l) as [i|] eqn:E1, (find (fun i => Nat.eqb (fst i) v) l') as [j|] eqn:E2; try reflexivity.
  - apply find_some in E1, E2. destruct E1 as [Hi Ei], E2 as [Hj Ej]. apply Nat.eqb_eq in Ei, Ej. f_equal.
    apply (unique_name l' i j Hn'); [eapply Permutation_in; eassumption|exact Hj|congruence].
  - apply find_some in E1. destruct E1 as [Hi Ei]. pose proof (find_none _ _ E2 i (Permutation_in _ Hp Hi)) as Hc. cbn in Hc. congruence.
  - apply find_some in E2. destruct E2 as [Hj Ej]. pose proof (find_none _ _ E1 j (Permutation_in _ (Permutation_sym Hp) Hj)) as Hc. cbn in Hc. congruence.
Qed.

Section AncSem.
  Variable g : mg nat.
  Context {D : Type} {eqD : EqB D}.
  Variable U : Type.
  Variable f : nat -> (nat -> D) -> U -> D.
  Variable rho : nat * bool -> D.
  Hypothesis f_local : local g U f.
  Variable order : list nat.
  Hypothesis order_ok : is_topo g order = true.

  Lemma var_ivs_with_interventions n l : NoDup (map fst l) -> forall v, do_value rho (var_ivs (with_interventions n l)) v = do_value rho l v.
  Proof.
    intros Hn v. unfold with_interventions.
    assert (Hd : dedup l = l).
    { apply dedup_NoDup_id. clear - Hn. induction l as [|a t IH]; [constructor|]. cbn [map] in Hn. inversion Hn as [|? ? Ha Ht]; subst. constructor; [|apply IH; exact Ht].
      intros Hin. apply Ha. apply in_map. exact Hin. }
    assert (Hp : Permutation l (norm_ivs l)) by (unfold norm_ivs; rewrite Hd; apply stable_sort_perm).
    unfold do_value. f_equal. destruct (norm_ivs l) as [|i t] eqn:En.
    - apply Permutation_sym in Hp. apply Permutation_nil in Hp. subst l. reflexivity.
    - unfold var_ivs, is_cf. cbn [vk vi]. rewrite <- En in Hp |- *. symmetry. apply find_name_perm; assumption.
  Qed.

  (* W_z, an ancestor listed for the counterfactual variable v = Y_x, takes the value of W in the submodel M_x *)
  Theorem counterfactual_ancestor_same_value v anc a u :
    is_cf v = true -> clean v -> get_ancestors_of_counterfactual v g = Some anc -> In a anc ->
    In (vn a) (nodes g) /\ value U f rho order a u = solve U f rho order (vi v) u (vn a).
  Proof.
    intros Hc Hcl Hg Ha. unfold get_ancestors_of_counterfactual in Hg. destruct (negb (mem (vn v) (nodes g))) eqn:Em; [discriminate|]. rewrite Hc in Hg. cbn [negb] in Hg.
    inversion Hg; subst. clear Hg. apply in_map_iff in Ha. destruct Ha as [w [<- Hw]].
    set (ivv := iv_names v) in *. set (gmi := remove_in_edges g ivv) in *. set (A := ancestors_inclusive gmi [w]).
    set (kept := filter (fun i => mem (fst i) A) (vi v)).
    assert (Hclv : NoDup (map fst (vi v))) by (unfold clean, var_ivs in Hcl; rewrite Hc in Hcl; exact Hcl).
    assert (Hk : NoDup (map fst kept)) by (unfold kept; apply NoDup_map_filter; exact Hclv).
    assert (Evn : vn (with_interventions w kept) = w) by (unfold with_interventions; destruct (norm_ivs kept); reflexivity).
    assert (Hwn : In w (nodes g)).
    { apply negb_false_iff in Em. apply mem_In in Em. apply ancestors_inclusive_spec in Hw. destruct Hw as [s [[<-|[]] Hd]].
      destruct (proj1 (is_topo_spec g order) order_ok) as [_ [Heq Hfw]].
      clear - Hd Em Heq Hfw. induction Hd as [x y Hxy|x|x y z _ IH1 _ IH2]; [|exact Em|auto].
      apply remove_out_edges_dir in Hxy. destruct Hxy as [Hxy _]. destruct (Hfw _ _ Hxy) as [i [j [Ei _]]]. apply Heq.
      clear - Ei. revert i Ei. induction order as [|o t IH]; intros i Ei; [discriminate|]. cbn [index_of] in Ei. destruct (eqb o x) eqn:E; [left; apply (proj1 (eqb_eq _ _)); exact E|].
      right. destruct (index_of x t) as [k|]; [|discriminate]. apply (IH k). reflexivity. }
    rewrite Evn. split; [exact Hwn|]. unfold value. rewrite Evn.
    pose proof (solution_exists g U f rho f_local order order_ok (var_ivs (with_interventions w kept)) u) as S1.
    pose proof (solution_exists g U f rho f_local order order_ok (vi v) u) as S2.
    apply (solutions_agree g U f rho f_local order order_ok (fun x => In x A) _ _ u _ _ S1 S2).
    - intros x Hx Ax. rewrite (var_ivs_with_interventions w kept Hk). unfold do_value, kept. f_equal. apply find_filter.
      intros i Hi Ei. apply Nat.eqb_eq in Ei. apply mem_In. rewrite Ei. exact Ax.
    - intros x p Hx Ax Hnone Hp. unfold A in *. apply ancestors_inclusive_spec in Ax. destruct Ax as [s [Hs0 Hd]]. apply ancestors_inclusive_spec. exists s. split; [exact Hs0|].
      eapply rt_trans; [|exact Hd]. apply rt_step. apply remove_in_edges_dir. split; [apply In_parents; exact Hp|].
      intros Hin. unfold ivv, iv_names in Hin. apply (proj1 (In_dedup _ _)) in Hin. apply in_map_iff in Hin. destruct Hin as [i [Ei Hi]].
      rewrite (var_ivs_with_interventions w kept Hk) in Hnone. unfold do_value in Hnone.
      destruct (find (fun j => Nat.eqb (fst j) x) kept) eqn:Ef; [discriminate|].
      assert (Hik : In i kept).
      { unfold kept. apply filter_In. split; [exact Hi|]. apply mem_In. rewrite Ei. apply ancestors_inclusive_spec. exists s. split; [exact Hs0|exact Hd]. }
      pose proof (find_none _ _ Ef i Hik) as Hne. cbn in Hne. rewrite Ei, Nat.eqb_refl in Hne. discriminate.
    - exact Hwn.
    - unfold A. apply ancestors_inclusive_spec. exists w. split; [left; reflexivity|apply rt_refl].
  Qed.
End AncSem.
