(* C11, part 3: Sum.safe(simplify=True) on a canonical form gives a canonical form (for the orderings the public API builds:
   sorted by name), and the main theorems: every non-error result of canonicalize is a fixed point of canonicalize. *)
From Coq Require Import List Bool Arith Lia Permutation Sorted String.
From Y0 Require Import Base.ListSet Dsl.Syntax Dsl.Text Dsl.Print Dsl.Build Dsl.Canon
  Proofs.SortP Proofs.ExprP Proofs.SurgeryP Proofs.SumSimpP Proofs.LawP Proofs.AtomsP Proofs.OrderP Proofs.CanonNfP Proofs.CanonNf2P.
Import ListNotations.
Open Scope list_scope.

(* ---------------------------------------------------------------- _upgrade_ordering *)
Lemma upgrade_perm l : Permutation (dedup l) (upgrade_ordering l).
Proof. unfold upgrade_ordering, sorted_variables. apply stable_sort_perm. Qed.

Lemma In_upgrade l x : In x (upgrade_ordering l) <-> In x l.
Proof.
  split; intros H.
  - apply (proj1 (In_dedup _ _)). eapply Permutation_in; [apply Permutation_sym; apply upgrade_perm|exact H].
  - eapply Permutation_in; [apply upgrade_perm|]. apply (proj2 (In_dedup _ _)). exact H.
Qed.

Lemma NoDup_upgrade l : NoDup (upgrade_ordering l).
Proof. eapply Permutation_NoDup; [apply upgrade_perm|apply NoDup_dedup]. Qed.

Lemma upgrade_sorted l : sorted var_sort_lt (upgrade_ordering l).
Proof. unfold upgrade_ordering, sorted_variables. apply stable_sort_sorted; [exact var_sort_lt_irrefl|exact var_sort_lt_trans]. Qed.

Lemma upgrade_idem l : upgrade_ordering (upgrade_ordering l) = upgrade_ordering l.
Proof.
  unfold upgrade_ordering at 1. rewrite (dedup_NoDup_id _ (NoDup_upgrade l)). unfold sorted_variables.
  apply stable_sort_sorted_id. apply upgrade_sorted.
Qed.

Lemma upgrade_nonempty l x : In x l -> upgrade_ordering l <> [].
Proof. intros Hx E. apply (proj2 (In_upgrade _ _)) in Hx. rewrite E in Hx. destruct Hx. Qed.

Lemma subset_false {T} `{EqB T} (l1 l2 : list T) x : In x l1 -> ~ In x l2 -> subset l1 l2 = false.
Proof.
  intros H1 H2. destruct (subset l1 l2) eqn:E; [|reflexivity]. apply subset_incl in E. exfalso. apply H2. apply E. exact H1.
Qed.

Lemma diff_nil_r {T} `{EqB T} (l : list T) : diff l [] = l.
Proof. unfold diff. apply filter_all. intros x _. reflexivity. Qed.

(* ---------------------------------------------------------------- Sum.simplify on a joint, with names *)
Definition bases_of (ch : list var) : list var := dedup (map get_base ch).
Definition child_of (ch : list var) (b : var) : var :=
  match find (fun c => eqb (get_base c) b) (rev ch) with Some c => c | None => b end.
Definition kept (pop : option var) (ch X : list var) : expr := prob_raw pop (upgrade_ordering (map (child_of ch) X)) [].

Lemma sum_simplify_prob pop ch rs :
  sum_simplify (EProb pop ch []) rs =
  if negb (Nat.eqb (List.length (bases_of ch)) (List.length ch)) || existsb (iv_in_ranges rs) ch then sum_raw (EProb pop ch []) rs
  else if set_eqb rs (bases_of ch) then EOne
  else if subset (bases_of ch) rs then sum_raw EOne (upgrade_ordering (diff rs (bases_of ch)))
  else if subset rs (bases_of ch) then kept pop ch (diff (bases_of ch) rs)
  else match upgrade_ordering (diff rs (inter rs (bases_of ch))) with
       | [] => kept pop ch (diff (bases_of ch) (inter rs (bases_of ch)))
       | r :: t => if is_zero (kept pop ch (diff (bases_of ch) (inter rs (bases_of ch))))
                   then kept pop ch (diff (bases_of ch) (inter rs (bases_of ch)))
                   else sum_raw (kept pop ch (diff (bases_of ch) (inter rs (bases_of ch)))) (r :: t)
       end.
Proof. reflexivity. Qed.

Lemma sum_raw_ok c rs : is_err c = false -> rs <> [] -> existsb bad_range rs = false -> sum_raw c rs = ESum c rs.
Proof. intros H1 H2 H3. unfold sum_raw. rewrite H1. destruct rs; [congruence|]. rewrite H3. reflexivity. Qed.

Lemma child_of_base l c : NoDup (map get_base l) -> In c l -> child_of l (get_base c) = c.
Proof.
  intros Hnd Hc. unfold child_of. destruct (find (fun c0 => eqb (get_base c0) (get_base c)) (rev l)) as [c'|] eqn:Ef.
  - apply find_some in Ef. destruct Ef as [Hin E]. apply eqb_true in E. apply in_rev in Hin. apply (inj_on_NoDup get_base l Hnd); assumption.
  - exfalso. eapply find_none in Ef; [|apply in_rev; rewrite rev_involutive; exact Hc]. cbv beta in Ef. rewrite eqb_refl in Ef. discriminate.
Qed.

Lemma child_of_in' ch b : In b (bases_of ch) -> In (child_of ch b) ch.
Proof. intros H. apply (proj1 (In_dedup _ _)) in H. apply child_of_in. exact H. Qed.

Lemma dedup_length_NoDup {T} `{EqB T} (l : list T) : List.length (dedup l) = List.length l -> NoDup l.
Proof.
  intros E. apply (@NoDup_incl_NoDup _ (dedup l) l (NoDup_dedup l)); [lia|]. intros x Hx. apply (proj1 (In_dedup _ _)) in Hx. exact Hx.
Qed.

Lemma iv_in_ranges_mono rs rs' c : incl rs' rs -> iv_in_ranges rs c = false -> iv_in_ranges rs' c = false.
Proof.
  intros Hi. unfold iv_in_ranges. destruct (vk c); try reflexivity. intros H.
  destruct (existsb (fun i : nat * bool => mem (V (fst i)) rs') (vi c)) eqn:E; [|reflexivity].
  apply existsb_exists in E. destruct E as [i [Hin Hm]]. apply mem_In in Hm.
  assert (existsb (fun i : nat * bool => mem (V (fst i)) rs) (vi c) = true) by (apply existsb_exists; exists i; split; [exact Hin|apply mem_In; apply Hi; exact Hm]).
  congruence.
Qed.

Lemma existsb_false_all {T} (p : T -> bool) l : existsb p l = false -> forall x, In x l -> p x = false.
Proof.
  intros E x Hx. destruct (p x) eqn:Ep; [|reflexivity]. assert (existsb p l = true) by (apply existsb_exists; exists x; auto). congruence.
Qed.

Lemma no_bad_sub rs rs' : incl rs' rs -> existsb bad_range rs = false -> existsb bad_range rs' = false.
Proof. intros Hi H. apply existsb_none. intros x Hx. apply (existsb_false_all _ _ H). apply Hi. exact Hx. Qed.

Section Nf3.
  Variable o : list var.
  (* the orderings ensure_ordering builds are sorted by name *)
  Hypothesis Ho : StronglySorted (fun a b => vn a <= vn b) o.
  Notation NF := (NF o).

  Lemma level_in_o l n k : level_of l n = Some k -> exists v, In v l /\ vn v = n.
  Proof.
    revert k. induction l as [|v t IH]; intros k E; [discriminate|]. cbn [level_of] in E.
    destruct (level_of t n) as [k'|] eqn:Et.
    - destruct (IH k' eq_refl) as [w [Hw Ew]]. exists w. split; [right; exact Hw|exact Ew].
    - destruct (Nat.eqb (vn v) n) eqn:En; [|discriminate]. apply Nat.eqb_eq in En. exists v. split; [left; reflexivity|exact En].
  Qed.

  Lemma level_mono_gen l : StronglySorted (fun a b => vn a <= vn b) l ->
    forall n1 n2 x y, level_of l n1 = Some x -> level_of l n2 = Some y -> n1 < n2 -> x < y.
  Proof.
    induction 1 as [|v t Ht IH Hall]; intros n1 n2 x y E1 E2 Hlt; [discriminate|]. cbn [level_of] in E1, E2.
    destruct (level_of t n1) as [k1|] eqn:L1.
    - injection E1 as <-. destruct (level_in_o t n1 k1 L1) as [w [Hw Ew]]. rewrite Forall_forall in Hall. specialize (Hall w Hw).
      destruct (level_of t n2) as [k2|] eqn:L2.
      + injection E2 as <-. specialize (IH n1 n2 k1 k2 L1 L2 Hlt). lia.
      + destruct (Nat.eqb (vn v) n2) eqn:En; [|discriminate]. apply Nat.eqb_eq in En. lia.
    - destruct (Nat.eqb (vn v) n1) eqn:En1; [|discriminate]. injection E1 as <-. apply Nat.eqb_eq in En1.
      destruct (level_of t n2) as [k2|] eqn:L2.
      + injection E2 as <-. lia.
      + destruct (Nat.eqb (vn v) n2) eqn:En; [|discriminate]. apply Nat.eqb_eq in En. lia.
  Qed.

  (* on variables with different names, the canonicalizer's order is the order of the names *)
  Lemma vlt_by_name a b : has_level o a = true -> has_level o b = true -> vn a < vn b -> vlt o b a = false.
  Proof.
    unfold has_level, vlt, canon_var_lt. destruct (level_of o (vn a)) as [x|] eqn:La; [|discriminate]. destruct (level_of o (vn b)) as [y|] eqn:Lb; [|discriminate].
    intros _ _ Hlt. pose proof (level_mono_gen o Ho _ _ _ _ La Lb Hlt) as Hxy.
    rewrite (proj2 (Nat.ltb_ge _ _)) by lia. rewrite (proj2 (Nat.ltb_lt _ _) Hxy). reflexivity.
  Qed.

  Lemma sorted_by_name_vlt l : sorted var_sort_lt l -> NoDup (map vn l) -> forallb (has_level o) l = true -> sorted (vlt o) l.
  Proof.
    induction 1 as [|a t Ht IH Hall]; intros Hnd Hlv; [constructor|].
    cbn [map] in Hnd. inversion Hnd as [|? ? Hnotin Hnd']; subst. cbn [forallb] in Hlv. apply andb_true_iff in Hlv. destruct Hlv as [Hla Hlt].
    constructor; [apply IH; assumption|]. rewrite Forall_forall in *. intros b Hb. specialize (Hall b Hb). unfold nafter in *.
    rewrite forallb_forall in Hlt. apply vlt_by_name; [exact Hla|apply Hlt; exact Hb|].
    assert (Hne : vn a <> vn b) by (intros E; apply Hnotin; rewrite E; apply in_map; exact Hb).
    destruct (Nat.lt_trichotomy (vn a) (vn b)) as [H|[H|H]]; [exact H|contradiction|].
    exfalso. unfold var_sort_lt in Hall. rewrite (proj2 (Nat.ltb_lt _ _) H) in Hall. discriminate.
  Qed.

  Lemma NoDup_names_of_bases ch : NoDup (map get_base ch) -> NoDup (map vn ch).
  Proof.
    intros H. assert (E : map get_base ch = map V (map vn ch)) by (rewrite map_map; reflexivity). rewrite E in H.
    apply NoDup_map_inv in H. exact H.
  Qed.

  Section Joint.
    Variables (pop : option var) (ch : list var).
    Hypothesis Hlev : forallb (has_level o) ch = true.
    Hypothesis Hnd : NoDup (map get_base ch).

    Lemma kept_children X : incl X (bases_of ch) ->
      let ch' := upgrade_ordering (map (child_of ch) X) in incl ch' ch /\ NoDup ch' /\ NoDup (map get_base ch').
    Proof.
      intros HX ch'. assert (Hin : incl ch' ch).
      { intros c Hc. apply (proj1 (In_upgrade _ _)) in Hc. apply in_map_iff in Hc. destruct Hc as [b [<- Hb]]. apply child_of_in'. apply HX. exact Hb. }
      split; [exact Hin|]. split; [apply NoDup_upgrade|]. apply (NoDup_map_sub get_base ch ch' Hnd Hin). apply NoDup_upgrade.
    Qed.

    Lemma nf_kept X : incl X (bases_of ch) -> is_err (kept pop ch X) = false -> NF (kept pop ch X).
    Proof.
      intros HX Herr. destruct (kept_children X HX) as [Hin [Hnd1 Hnd2]]. unfold kept, prob_raw in *.
      destruct (upgrade_ordering (map (child_of ch) X)) as [|c0 t] eqn:Eu; [discriminate|]. rewrite <- Eu in *.
      assert (Hlv : forallb (has_level o) (upgrade_ordering (map (child_of ch) X)) = true).
      { apply forallb_forall. intros c Hc. rewrite forallb_forall in Hlev. apply Hlev. apply Hin. exact Hc. }
      constructor; [rewrite Eu; discriminate|exact Hlv|reflexivity| |constructor].
      apply sorted_by_name_vlt; [apply upgrade_sorted|apply NoDup_names_of_bases; exact Hnd2|exact Hlv].
    Qed.

    (* summing the kept part over ranges that miss it changes nothing: Sum.simplify answers with the same sum again *)
    Lemma second_pass X rs3 :
      incl X (bases_of ch) -> is_err (kept pop ch X) = false ->
      rs3 <> [] -> upgrade_ordering rs3 = rs3 -> existsb bad_range rs3 = false ->
      (forall c, In c ch -> iv_in_ranges rs3 c = false) ->
      (forall x, In x rs3 -> ~ In x (bases_of ch)) ->
      sum_simplify (kept pop ch X) rs3 = ESum (kept pop ch X) rs3.
    Proof.
      intros HX Herr Hne Hup Hbad Hiv Hdisj. destruct (kept_children X HX) as [Hin [Hnd1 Hnd2]]. unfold kept, prob_raw in *.
      destruct (upgrade_ordering (map (child_of ch) X)) as [|c0 t] eqn:Eu; [discriminate|]. rewrite <- Eu in *.
      set (ch3 := upgrade_ordering (map (child_of ch) X)) in *.
      assert (Hb3 : bases_of ch3 = map get_base ch3) by (unfold bases_of; apply dedup_NoDup_id; exact Hnd2).
      rewrite sum_simplify_prob. rewrite Hb3, map_length, Nat.eqb_refl. cbn [negb orb].
      rewrite existsb_none; [|intros c Hc; apply Hiv; apply Hin; exact Hc].
      assert (Hd3 : forall x, In x rs3 -> ~ In x (map get_base ch3)).
      { intros x Hx Hb. apply (Hdisj x Hx). apply in_map_iff in Hb. destruct Hb as [c [<- Hc]]. apply (proj2 (In_dedup _ _)). apply in_map. apply Hin. exact Hc. }
      destruct rs3 as [|r rt] eqn:Er; [congruence|]. rewrite <- Er in *.
      assert (Hr : In r rs3) by (rewrite Er; left; reflexivity).
      assert (Hc0 : In (get_base c0) (map get_base ch3)) by (apply in_map; rewrite Eu; left; reflexivity).
      assert (S1 : subset rs3 (map get_base ch3) = false) by (apply (subset_false _ _ r Hr); apply Hd3; exact Hr).
      assert (S2 : subset (map get_base ch3) rs3 = false).
      { apply (subset_false _ _ (get_base c0) Hc0). intros Hx. exact (Hd3 _ Hx Hc0). }
      unfold set_eqb. rewrite S1, S2. cbn [andb].
      assert (Ei : inter rs3 (map get_base ch3) = []).
      { unfold inter. apply filter_none. intros x Hx. apply mem_false. apply Hd3. exact Hx. }
      rewrite Ei, !diff_nil_r, Hup. rewrite Er. rewrite <- Er.
      assert (Ek : kept pop ch3 (map get_base ch3) = EProb pop ch3 []).
      { unfold kept. rewrite map_map. rewrite (map_ext_in _ (fun c => c)); [|intros c Hc; apply child_of_base; assumption]. rewrite map_id.
        unfold ch3 at 1. rewrite upgrade_idem. fold ch3. unfold prob_raw. rewrite Eu. reflexivity. }
      rewrite Ek. cbn [is_zero]. apply sum_raw_ok; [reflexivity|rewrite Er; discriminate|exact Hbad].
    Qed.
  End Joint.

  Theorem nf_sum_simplify c rs : NF c -> is_zero c = false -> rs <> [] -> upgrade_ordering rs = rs -> existsb bad_range rs = false ->
    is_err (sum_simplify c rs) = false -> NF (sum_simplify c rs).
  Proof.
    intros Hc Hz Hne Hup Hbad Herr.
    assert (Hplain : sum_simplify c rs = sum_raw c rs -> NF (sum_simplify c rs)).
    { intros E. pose proof E as E'. rewrite (sum_raw_ok c rs (NF_not_err o _ Hc) Hne Hbad) in E'. rewrite E'. constructor; assumption. }
    destruct c as [pop ch pa| | | | | | |]; try (apply Hplain; reflexivity).
    destruct pa as [|p0 pt]; [|apply Hplain; reflexivity].
    inversion Hc as [pop' ch' pa' Hcne Hlc _ Hsc _| | | | |]; subst.
    rewrite sum_simplify_prob in *.
    destruct (negb (Nat.eqb (List.length (bases_of ch)) (List.length ch)) || existsb (iv_in_ranges rs) ch) eqn:G.
    { apply Hplain. reflexivity. }
    apply orb_false_iff in G. destruct G as [G1 G2]. apply negb_false_iff in G1. apply Nat.eqb_eq in G1.
    assert (Hnd : NoDup (map get_base ch)).
    { apply dedup_length_NoDup. unfold bases_of in G1. rewrite G1. rewrite map_length. reflexivity. }
    destruct (set_eqb rs (bases_of ch)); [constructor|].
    destruct (subset (bases_of ch) rs) eqn:S1.
    { set (rs2 := upgrade_ordering (diff rs (bases_of ch))) in *.
      assert (Hb2 : existsb bad_range rs2 = false).
      { apply (no_bad_sub rs); [|exact Hbad]. intros x Hx. apply (proj1 (In_upgrade _ _)) in Hx. apply In_diff in Hx. tauto. }
      assert (Hne2 : rs2 <> []).
      { intros E. unfold sum_raw in Herr. cbn [is_err] in Herr. rewrite E in Herr. discriminate. }
      rewrite (sum_raw_ok EOne rs2 eq_refl Hne2 Hb2). constructor; try assumption; try reflexivity; try constructor.
      - unfold rs2. apply upgrade_idem.
      - apply (sum_raw_ok EOne rs2 eq_refl Hne2 Hb2). }
    destruct (subset rs (bases_of ch)) eqn:S2.
    { apply (nf_kept pop ch Hlc Hnd); [|exact Herr]. intros x Hx. apply In_diff in Hx. tauto. }
    set (i := inter rs (bases_of ch)) in *.
    assert (HX : incl (diff (bases_of ch) i) (bases_of ch)) by (intros x Hx; apply In_diff in Hx; tauto).
    destruct (upgrade_ordering (diff rs i)) as [|r t] eqn:Er.
    { apply (nf_kept pop ch Hlc Hnd); assumption. }
    rewrite <- Er in *. set (rs3 := upgrade_ordering (diff rs i)) in *.
    assert (Hsub3 : incl rs3 rs) by (intros x Hx; apply (proj1 (In_upgrade _ _)) in Hx; apply In_diff in Hx; tauto).
    assert (Hb3 : existsb bad_range rs3 = false) by (apply (no_bad_sub rs); assumption).
    assert (Hne3 : rs3 <> []) by (rewrite Er; discriminate).
    assert (Hk : is_err (kept pop ch (diff (bases_of ch) i)) = false).
    { destruct (is_err (kept pop ch (diff (bases_of ch) i))) eqn:E; [|reflexivity]. exfalso.
      destruct (kept pop ch (diff (bases_of ch) i)); discriminate. }
    pose proof (nf_kept pop ch Hlc Hnd _ HX Hk) as Hnk.
    assert (Hzk : is_zero (kept pop ch (diff (bases_of ch) i)) = false).
    { unfold kept, prob_raw. destruct (upgrade_ordering (map (child_of ch) (diff (bases_of ch) i))); reflexivity. }
    rewrite Hzk in *. rewrite (sum_raw_ok _ rs3 Hk Hne3 Hb3) in *.
    constructor; try assumption.
    - unfold rs3. apply upgrade_idem.
    - apply (second_pass pop ch Hnd); try assumption.
      + unfold rs3. apply upgrade_idem.
      + intros c1 Hc1. apply (iv_in_ranges_mono rs); [exact Hsub3|]. apply (existsb_false_all _ _ G2). exact Hc1.
      + intros x Hx Hb. apply (proj1 (In_upgrade _ _)) in Hx. apply In_diff in Hx. destruct Hx as [Hxr Hni]. apply Hni. apply (proj2 (In_inter _ _ _)). tauto.
  Qed.

  (* ---------------------------------------------------------------- every non-error result has the canonical shape *)
  Theorem cz_nf : forall e,
    (is_err (fst (cz false o e)) = false -> NF (fst (cz false o e))) /\
    Forall (fun f => is_err f = false -> NF f /\ notprod f = true) (snd (cz false o e)).
  Proof.
    assert (Hfac : forall r, (is_err r = false -> NF r) -> Forall (fun f => is_err f = false -> NF f /\ notprod f = true) (factors_of false r)).
    { intros r Hr. unfold factors_of. destruct r; try (constructor; [intros E; split; [apply Hr; exact E|reflexivity]|constructor]).
      specialize (Hr eq_refl). inversion Hr as [|fs Hlen Hall Hat Hs| | | |]; subst. rewrite Forall_forall in *. rewrite forallb_forall in Hat.
      intros x Hx _. split; [apply Hall; exact Hx|]. apply atomic_facts. apply Hat. exact Hx. }
    induction e as [pop ch pa|es IH|e rs IH|n d IHn IHd| | |dm cd|k] using expr_ind'.
    - (* probability *)
      assert (H : is_err (fst (cz false o (EProb pop ch pa))) = false -> NF (fst (cz false o (EProb pop ch pa)))).
      { cbn [cz fst]. unfold canon_sorted.
        change (fun v : var => match level_of o (vn v) with Some _ => true | None => false end) with (has_level o).
        destruct (forallb (has_level o) ch) eqn:Lc; [|discriminate]. destruct (forallb (has_level o) pa) eqn:Lp; [|discriminate].
        unfold prob_raw. destruct (stable_sort (canon_var_lt false o) ch) as [|c0 ct] eqn:Es; [discriminate|]. rewrite <- Es. intros _.
        constructor.
        - rewrite Es. discriminate.
        - apply (forallb_perm' _ _ _ (stable_sort_perm _ ch)). exact Lc.
        - apply (forallb_perm' _ _ _ (stable_sort_perm _ pa)). exact Lp.
        - apply stable_sort_sorted; [exact (vlt_irrefl o)|exact (vlt_trans o)].
        - apply stable_sort_sorted; [exact (vlt_irrefl o)|exact (vlt_trans o)]. }
      split; [exact H|]. apply Hfac. exact H.
    - (* product *)
      cbn [cz fst snd].
      set (leaves := (fix go (es0 : list expr) : list expr := match es0 with [] => [] | x :: t => snd (cz false o x) ++ go t end) es).
      assert (Hl : Forall (fun f => is_err f = false -> NF f /\ notprod f = true) leaves).
      { unfold leaves. clear leaves. induction IH as [|x t Hx _ IHt]; [constructor|]. apply Forall_app. split; [apply Hx|exact IHt]. }
      split; [|exact Hl]. intros Herr. apply nf_prod_safe.
      assert (Hne : forall x, In x leaves -> is_err x = false).
      { intros x Hx. unfold prod_safe_gen in Herr. destruct (first_err leaves) as [e0|] eqn:Ef.
        - unfold first_err in Ef. apply find_some in Ef. destruct Ef as [_ Ef]. congruence.
        - unfold first_err in Ef. apply (find_none _ _ Ef x Hx). }
      rewrite Forall_forall in *. intros x Hx. apply Hl; [exact Hx|apply Hne; exact Hx].
    - (* sum *)
      destruct IH as [IH _].
      assert (H : is_err (fst (cz false o (ESum e rs))) = false -> NF (fst (cz false o (ESum e rs)))).
      { cbn [cz fst]. unfold sum_safe_gen. destruct (is_err (fst (cz false o e))) eqn:Ee; [intros H0; congruence|]. specialize (IH eq_refl).
        destruct (upgrade_ordering rs) as [|r t] eqn:Er; [intros _; exact IH|]. rewrite <- Er.
        destruct (is_zero (fst (cz false o e))) eqn:Ez; [intros _; exact IH|].
        destruct (existsb bad_range (upgrade_ordering rs)) eqn:Eb; [discriminate|].
        intros Herr. apply nf_sum_simplify; try assumption; [rewrite Er; discriminate|apply upgrade_idem]. }
      split; [exact H|]. apply Hfac. exact H.
    - (* fraction *)
      destruct IHn as [IHn _]. destruct IHd as [IHd _].
      assert (H : is_err (fst (cz false o (EFrac n d))) = false -> NF (fst (cz false o (EFrac n d)))).
      { cbn [cz fst]. destruct (is_err (fst (cz false o n))) eqn:En; [intros H0; congruence|].
        destruct (is_err (fst (cz false o d))) eqn:Ed; [intros H0; congruence|]. specialize (IHn eq_refl). specialize (IHd eq_refl).
        destruct (is_one (fst (cz false o d))) eqn:E1; [intros _; exact IHn|].
        destruct (expr_eqb (fst (cz false o n)) (fst (cz false o d))) eqn:Eq; [intros _; constructor|].
        intros Herr. apply nf_div; assumption. }
      split; [exact H|]. apply Hfac. exact H.
    - cbn [cz fst snd]. split; [intros _; constructor|]. constructor; [intros _; split; [constructor|reflexivity]|constructor].
    - cbn [cz fst snd]. split; [intros _; constructor|]. constructor; [intros _; split; [constructor|reflexivity]|constructor].
    - cbn [cz fst snd]. split; [discriminate|]. constructor; [discriminate|constructor].
    - cbn [cz fst snd]. split; [discriminate|]. constructor; [discriminate|constructor].
  Qed.

  Theorem canonicalize_gives_nf e : is_err (canonicalize false o e) = false -> NF (canonicalize false o e).
  Proof. apply cz_nf. Qed.

  Theorem canonicalize_idempotent e :
    is_err (canonicalize false o e) = false -> canonicalize false o (canonicalize false o e) = canonicalize false o e.
  Proof. intros H. apply (nf_fixed o). apply canonicalize_gives_nf. exact H. Qed.
End Nf3.

(* the orderings the public entry point builds are sorted by name *)
Lemma sorted_variables_by_name l : StronglySorted (fun a b => vn a <= vn b) (sorted_variables l).
Proof.
  assert (H : sorted var_sort_lt (sorted_variables l)) by (apply stable_sort_sorted; [exact var_sort_lt_irrefl|exact var_sort_lt_trans]).
  induction H as [|a t Ht IH Hall]; constructor; [exact IH|]. rewrite Forall_forall in *. intros b Hb. specialize (Hall b Hb).
  unfold nafter, var_sort_lt in Hall. apply orb_false_iff in Hall. destruct Hall as [Hlt _]. apply Nat.ltb_ge in Hlt. exact Hlt.
Qed.

Lemma ensure_ordering_by_name e ordering : StronglySorted (fun a b => vn a <= vn b) (ensure_ordering e ordering).
Proof. unfold ensure_ordering, upgrade_ordering. destruct ordering; apply sorted_variables_by_name. Qed.

(* canonicalize(canonicalize(e, ordering), ordering) == canonicalize(e, ordering), for every expression and every ordering given by the caller *)
Theorem canonicalize_top_idempotent e ordering :
  is_err (canonicalize_top false e (Some ordering)) = false ->
  canonicalize_top false (canonicalize_top false e (Some ordering)) (Some ordering) = canonicalize_top false e (Some ordering).
Proof.
  unfold canonicalize_top. cbn [ensure_ordering]. apply canonicalize_idempotent. apply (ensure_ordering_by_name e (Some ordering)).
Qed.
