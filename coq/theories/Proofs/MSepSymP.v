(* C04: m-connection is symmetric in its two nodes and depends only on the node and edge SETS of the graph
   and on the SET of conditioning nodes; hence so does the verdict of are_d_separated. *)
From Coq Require Import List Bool Arith Lia Relations.
From Y0 Require Import Base.ListSet Graph.Closure Graph.MixedGraph Graph.DSep Graph.MSep
  Proofs.ClosureP Proofs.SurgeryP Proofs.DistrictsP Proofs.MSepP.
Import ListNotations.

Section Sym.
  Context {A : Type} `{EqB A}.
  Notation mg := (mg A).
  Variable g : mg.
  Variable C : list A.

  Lemma mstep_rev x mx my y : mstep g x mx my y -> mstep g y my mx x.
  Proof. intros Hs. inversion Hs; subst; [apply st_bwd|apply st_fwd|apply st_bi2|apply st_bi1]; assumption. Qed.

  Lemma pass_sym x m1 m2 : pass C x m1 m2 -> pass C x m2 m1.
  Proof. destruct m1, m2; exact (fun h => h). Qed.

  (* a non-empty walk: leaves x with mark m0 at x, arrives at y with mark m1 at y, every interior node passes *)
  Inductive walk : A -> mark -> A -> mark -> Prop :=
  | w_one x m0 m1 y : mstep g x m0 m1 y -> walk x m0 y m1
  | w_snoc x m0 y m1 my mz z : walk x m0 y m1 -> mstep g y my mz z -> pass C y m1 my -> walk x m0 z mz.

  Lemma w_cons x mx my y m1 m2 z : mstep g x mx my y -> pass C y my m1 -> walk y m1 z m2 -> walk x mx z m2.
  Proof.
    intros Hs Hp Hw. induction Hw as [y m1 m2 z Hs'|y m1 w m2 mw mz z Hw IH Hs' Hp'].
    - eapply w_snoc; [apply w_one; exact Hs|exact Hs'|exact Hp].
    - eapply w_snoc; [apply IH; assumption|exact Hs'|exact Hp'].
  Qed.

  Lemma walk_rev x m0 y m1 : walk x m0 y m1 -> walk y m1 x m0.
  Proof.
    intros Hw. induction Hw as [x m0 m1 y Hs|x m0 y m1 my mz z Hw IH Hs Hp].
    - apply w_one. apply mstep_rev. exact Hs.
    - eapply w_cons; [apply mstep_rev; exact Hs|apply pass_sym; exact Hp|exact IH].
  Qed.

  Lemma mreach_walk a x m : mreach g C a x m -> (x = a /\ m = Tail) \/ (~ In a C /\ exists m0, walk a m0 x m).
  Proof.
    intros Hr. induction Hr as [|x m mx my y Hr IH Hs Hp]; [left; auto|right].
    destruct IH as [[-> ->]|[Ha [m0 Hw]]].
    - split; [destruct mx; exact Hp|]. exists mx. apply w_one. exact Hs.
    - split; [exact Ha|]. exists m0. eapply w_snoc; eauto.
  Qed.

  Lemma walk_mreach a m0 x m : ~ In a C -> walk a m0 x m -> mreach g C a x m.
  Proof.
    intros Ha Hw. induction Hw as [a m0 m1 y Hs|a m0 y m1 my mz z Hw IH Hs Hp].
    - eapply mr_step; [apply mr_start|exact Hs|destruct m0; exact Ha].
    - eapply mr_step; [apply IH; exact Ha|exact Hs|exact Hp].
  Qed.

  Theorem m_connected_sym a b : ~ In a C -> ~ In b C -> m_connected g C a b -> m_connected g C b a.
  Proof.
    intros Ha Hb [m Hr]. apply mreach_walk in Hr. destruct Hr as [[-> ->]|[_ [m0 Hw]]].
    - exists Tail. constructor.
    - exists m0. eapply walk_mreach; [exact Hb|apply walk_rev; exact Hw].
  Qed.
End Sym.

Section Invariance.
  Context {A : Type} `{EqB A}.
  Notation mg := (mg A).

  (* the same graph as sets: bidirected edges up to orientation *)
  Definition same_graph (g h : mg) : Prop :=
    (forall v, In v (nodes g) <-> In v (nodes h)) /\
    (forall u v, In (u, v) (dir g) <-> In (u, v) (dir h)) /\
    (forall u v, In (u, v) (bid g) \/ In (v, u) (bid g) <-> In (u, v) (bid h) \/ In (v, u) (bid h)).

  Lemma mstep_same g h x mx my y : same_graph g h -> mstep g x mx my y -> mstep h x mx my y.
  Proof.
    intros [_ [Hd Hb]] Hs. inversion Hs as [? ? Hi|? ? Hi|? ? Hi|? ? Hi]; subst.
    - apply st_fwd. apply Hd. exact Hi.
    - apply st_bwd. apply Hd. exact Hi.
    - destruct (proj1 (Hb x y) (or_introl Hi)); [apply st_bi1|apply st_bi2]; assumption.
    - destruct (proj1 (Hb x y) (or_intror Hi)); [apply st_bi1|apply st_bi2]; assumption.
  Qed.

  Lemma pass_same (C C' : list A) (x : A) m1 m2 : (forall v, In v C <-> In v C') -> pass C x m1 m2 -> pass C' x m1 m2.
  Proof. intros HC. destruct m1, m2; simpl; rewrite (HC x); exact (fun h => h). Qed.

  Lemma mreach_same g h C C' a x m :
    same_graph g h -> (forall v, In v C <-> In v C') -> mreach g C a x m -> mreach h C' a x m.
  Proof.
    intros Hg HC Hr. induction Hr as [|x m mx my y Hr IH Hs Hp]; [constructor|].
    eapply mr_step; [exact IH|eapply mstep_same; eauto|eapply pass_same; eauto].
  Qed.

  Lemma same_graph_sym g h : same_graph g h -> same_graph h g.
  Proof. intros [Hn [Hd Hb]]. repeat split; intros; try apply Hn; try apply Hd; try apply Hb; assumption. Qed.

  Theorem m_connected_same g h C C' a b :
    same_graph g h -> (forall v, In v C <-> In v C') -> (m_connected g C a b <-> m_connected h C' a b).
  Proof.
    intros Hg HC. split; intros [m Hr]; exists m.
    - eapply mreach_same; eauto.
    - eapply mreach_same; [apply same_graph_sym; exact Hg| |exact Hr]. intros v. symmetry. apply HC.
  Qed.

  Lemma bool_iff (s t : bool) : (s = true <-> t = true) -> s = t.
  Proof.
    destruct s, t; intros [H1 H2]; try reflexivity.
    - symmetry. apply H1. reflexivity.
    - apply H2. reflexivity.
  Qed.

  Lemma mem_same (x : A) l l' : (forall v, In v l <-> In v l') -> mem x l = mem x l'.
  Proof. intros Hl. apply bool_iff. rewrite !mem_In. apply Hl. Qed.

  Lemma subset_same (l l' m m' : list A) :
    (forall v, In v l <-> In v l') -> (forall v, In v m <-> In v m') -> subset l m = subset l' m'.
  Proof.
    intros Hl Hm. apply bool_iff. rewrite !subset_incl. unfold incl. split; intros Hi v Hv; apply Hm, Hi, Hl, Hv.
  Qed.

  (* the verdict, errors included, is symmetric in the two nodes *)
  Theorem are_d_separated_sym (g : mg) a b C : are_d_separated g a b C = are_d_separated g b a C.
  Proof.
    unfold are_d_separated.
    rewrite (andb_comm (mem a (nodes g)) (mem b (nodes g))), (orb_comm (mem a C) (mem b C)).
    destruct (mem b (nodes g) && mem a (nodes g) && subset C (nodes g)) eqn:E1; cbn [negb]; [|reflexivity].
    destruct (mem b C || mem a C) eqn:E2; [reflexivity|].
    apply orb_false_iff in E2. destruct E2 as [Eb Ea]. apply mem_false in Ea, Eb.
    rewrite !andb_true_iff, !mem_In in E1. destruct E1 as [[Hb Ha] _].
    f_equal. f_equal. apply bool_iff.
    rewrite (evidence_path_iff_connected g a b C Ea Eb), (evidence_path_iff_connected g b a C Eb Ea).
    split; apply m_connected_sym; assumption.
  Qed.

  (* the verdict, errors included, depends only on the node set, the edge sets and the set of conditions *)
  Theorem are_d_separated_same (g h : mg) a b C C' :
    same_graph g h -> (forall v, In v C <-> In v C') -> are_d_separated g a b C = are_d_separated h a b C'.
  Proof.
    intros Hg HC. pose proof Hg as [Hn _]. unfold are_d_separated.
    rewrite (mem_same a _ _ Hn), (mem_same b _ _ Hn), (subset_same _ _ _ _ HC Hn), (mem_same a _ _ HC), (mem_same b _ _ HC).
    destruct (mem a (nodes h) && mem b (nodes h) && subset C' (nodes h)); cbn [negb]; [|reflexivity].
    destruct (mem a C' || mem b C') eqn:E2; [reflexivity|].
    apply orb_false_iff in E2. destruct E2 as [Ea Eb]. apply mem_false in Ea, Eb.
    assert (Ea' : ~ In a C) by (rewrite HC; exact Ea). assert (Eb' : ~ In b C) by (rewrite HC; exact Eb).
    f_equal. f_equal. apply bool_iff.
    rewrite (evidence_path_iff_connected g a b C Ea' Eb'), (evidence_path_iff_connected h a b C' Ea Eb).
    apply m_connected_same; assumption.
  Qed.
End Invariance.
