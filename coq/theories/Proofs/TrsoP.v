From Coq Require Import List Bool Arith.
From Y0 Require Import Base.ListSet Graph.MixedGraph Dsl.Syntax Dsl.Build Dsl.Canon Alg.Id Alg.Trso.
Import ListNotations.

Section TrsoP.
  Variable topo : mg nat -> option (list nat).

  (* line 1: without target interventions the answer is the canonicalised marginal of the carried expression *)
  Theorem trso_without_interventions fuel Y e act dom graphs surr g :
    lookup dom graphs = Some g ->
    trso topo (S fuel) (mkTq [] Y e act dom graphs surr) =
    ok_expr (canon (sum_safe e (Vs (diff (get_regular_nodes g) Y)) false)).
  Proof. intros Hg. cbn [trso tdom tgraphs tX texpr tY]. rewrite Hg. reflexivity. Qed.

  (* a missing graph for the active domain is the only source of KeyError at the top of a call *)
  Theorem trso_input_checks g Y X domains :
    subset Y (nodes g) && subset X (nodes g) && subset (flat_map (fun d => snd (fst d) ++ snd d) domains) (nodes g) = false ->
    identify_target_outcomes topo g Y X domains = RCrash ValueError.
  Proof. intros H. unfold identify_target_outcomes. rewrite H. reflexivity. Qed.

  Theorem trso_rejects_overlapping_query g Y X domains :
    subset Y (nodes g) && subset X (nodes g) && subset (flat_map (fun d => snd (fst d) ++ snd d) domains) (nodes g) = true ->
    inter Y X <> [] ->
    identify_target_outcomes topo g Y X domains = RCrash ValueError.
  Proof.
    intros H Hi. unfold identify_target_outcomes. rewrite H. cbn [negb]. destruct (inter Y X); [congruence|reflexivity].
  Qed.
End TrsoP.
