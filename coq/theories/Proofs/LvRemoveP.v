(* C16, part 3: the three removal rules (childless latents, latents with one child, redundant latents) preserve the
   projection; after the first of them every latent is exogenous. *)
From Coq Require Import List Bool Arith Lia Permutation.
From Y0 Require Import Base.ListSet Graph.Closure Graph.MixedGraph Graph.DSep Graph.LatentDag
  Proofs.SurgeryP Proofs.LatentDagP Proofs.LvProjP Proofs.LvFoldP.
Import ListNotations.

Section Remove.
  Variable d : lv.
  Variable S : list nat.
  Hypothesis Hwf : lwf d.
  Hypothesis HS : incl S (llat d).
  Let d' := lv_remove_nodes d S.

  Lemma rm_E u v : Ed d' u v <-> Ed d u v /\ ~ In u S /\ ~ In v S.
  Proof.
    unfold Ed, d', lv_remove_nodes. cbn [ledges]. rewrite filter_In. cbn [fst snd].
    rewrite andb_true_iff, !negb_true_iff, !mem_false. tauto.
  Qed.
  Lemma rm_lat x : latp d' x <-> latp d x /\ ~ In x S.
  Proof. unfold latp, d', lv_remove_nodes. cbn [llat]. apply In_diff. Qed.
  Lemma rm_nodes x : In x (lnodes d') <-> In x (lnodes d) /\ ~ In x S.
  Proof. unfold d', lv_remove_nodes. cbn [lnodes]. apply In_diff. Qed.
  Lemma rm_obs x : obsp d' x <-> obsp d x.
  Proof. unfold obsp. apply observed_remove_latents. exact HS. Qed.
  Lemma obs_not_S x : obsp d x -> ~ In x S.
  Proof. unfold obsp, observed. rewrite In_diff. intros [_ Hl] Hx. apply Hl. apply HS. exact Hx. Qed.

  Lemma rm_lwf : lwf d'.
  Proof.
    destruct Hwf as [Hw Hl]. split.
    - intros u v He. apply rm_E in He. destruct He as [He [Hu Hv]]. apply Hw in He. rewrite !rm_nodes. tauto.
    - intros x Hx. apply rm_lat in Hx. apply rm_nodes. split; [apply Hl; tauto|tauto].
  Qed.

  Lemma rm_path_sub x y : LPath d' x y -> LPath d x y.
  Proof.
    intros Hp. induction Hp as [u v He|u l v He Hl Hp IH].
    - apply lp_edge. apply rm_E in He. tauto.
    - apply (lp_step d u l v); [apply rm_E in He; apply He|apply rm_lat in Hl; apply Hl|exact IH].
  Qed.

  Lemma rm_exo K : exo d K -> exo d' K.
  Proof. intros H u He. apply rm_E in He. apply (H u). tauto. Qed.

  (* enough for all three rules: paths and bidirected witnesses avoid S *)
  Hypothesis Hpath : forall x y, LPath d x y -> ~ In x S -> ~ In y S -> LPath d' x y.
  Hypothesis Hwit : forall l a b, latp d l -> In l (lnodes d) -> LPath d l a -> LPath d l b -> obsp d a -> obsp d b -> a <> b ->
                    exists r, latp d r /\ In r (lnodes d) /\ ~ In r S /\ LPath d r a /\ LPath d r b.

  Theorem remove_same_proj : same_proj d d'.
  Proof.
    split; [intros x; symmetry; apply rm_obs|]. split.
    - intros u c. unfold DirP. rewrite !rm_obs. split; intros [Hu [Hc Hp]]; (split; [exact Hu|split; [exact Hc|]]).
      + apply Hpath; [exact Hp|apply obs_not_S; exact Hu|apply obs_not_S; exact Hc].
      + apply rm_path_sub. exact Hp.
    - intros a b. unfold BidP. rewrite !rm_obs. split; intros [Ha [Hb [Hab [l [Hl [Hln [Hpa Hpb]]]]]]];
        (split; [exact Ha|split; [exact Hb|split; [exact Hab|]]]).
      + destruct (Hwit l a b Hl Hln Hpa Hpb Ha Hb Hab) as [r [Hr [Hrn [HrS [Hra Hrb]]]]].
        exists r. split; [apply rm_lat; tauto|]. split; [apply rm_nodes; tauto|].
        split; apply Hpath; try assumption; apply obs_not_S; assumption.
      + exists l. apply rm_lat in Hl. apply rm_nodes in Hln. split; [tauto|]. split; [tauto|]. split; apply rm_path_sub; assumption.
  Qed.
End Remove.

Lemma LPath_first d x y : LPath d x y -> exists z, Ed d x z.
Proof. intros Hp. destruct Hp as [u v He|u l v He _ _]; eexists; exact He. Qed.

Lemma widows_spec d l : In l (widows d) <-> latp d l /\ childless d l.
Proof.
  unfold widows, childless, latp. rewrite filter_In. split; intros [Hl Hc]; (split; [exact Hl|]).
  - intros v He. apply In_lsuccs' in He. destruct (lsuccs d l); [destruct He|discriminate].
  - destruct (lsuccs d l) as [|c t] eqn:E; [reflexivity|]. exfalso. apply (Hc c). apply In_lsuccs'. rewrite E. left. reflexivity.
Qed.

(* ---- childless latents ---- *)
Lemma remove_childless_same_proj d S : lwf d -> incl S (llat d) -> (forall l, In l S -> childless d l) ->
  same_proj d (lv_remove_nodes d S).
Proof.
  intros Hwf HS Hch. apply remove_same_proj; [exact HS| |].
  - intros x y Hp. induction Hp as [u v He|u l v He Hl Hp IH]; intros Hx Hy.
    + apply lp_edge. apply rm_E. tauto.
    + assert (HlS : ~ In l S) by (intros F; destruct (LPath_first _ _ _ Hp) as [z Hz]; exact (Hch l F z Hz)).
      apply (lp_step _ u l v); [apply rm_E; tauto|apply rm_lat; tauto|apply IH; assumption].
  - intros l a b Hl Hln Hpa Hpb _ _ _. exists l. repeat split; try assumption.
    intros F. destruct (LPath_first _ _ _ Hpa) as [z Hz]. exact (Hch l F z Hz).
Qed.

Definition all_exo (d : lv) : Prop := forall K, latp d K -> exo d K.

Lemma widow_rounds fuel : forall d, lwf d -> all_exo d ->
  let r := remove_widow_latents_fuel fuel d in lwf r /\ same_proj d r /\ all_exo r.
Proof.
  induction fuel as [|f IH]; intros d Hwf Hex; cbn [remove_widow_latents_fuel]; cbv zeta.
  - destruct (is_nil (widows d)); (split; [exact Hwf|split; [apply same_proj_refl|exact Hex]]).
  - destruct (is_nil (widows d)); [split; [exact Hwf|split; [apply same_proj_refl|exact Hex]]|].
    assert (HS : incl (widows d) (llat d)) by apply widows_incl.
    assert (Hwf1 : lwf (lv_remove_nodes d (widows d))) by (apply rm_lwf; assumption).
    assert (Hex1 : all_exo (lv_remove_nodes d (widows d))).
    { intros K HK. apply rm_lat in HK. apply rm_exo. apply Hex. tauto. }
    destruct (IH _ Hwf1 Hex1) as [H1 [H2 H3]]. split; [exact H1|]. split; [|exact H3].
    eapply same_proj_trans; [|exact H2]. apply remove_childless_same_proj; [exact Hwf|exact HS|].
    intros l Hl. apply widows_spec in Hl. tauto.
Qed.

Lemma widow_no_widows fuel d : widows d = [] -> remove_widow_latents_fuel fuel d = d.
Proof. intros E. destruct fuel; cbn [remove_widow_latents_fuel]; rewrite E; reflexivity. Qed.

Lemma widow_first_round f d : lwf d -> (forall K, latp d K -> exo d K \/ childless d K) -> widows d <> [] ->
  let r := remove_widow_latents_fuel (S f) d in lwf r /\ same_proj d r /\ all_exo r.
Proof.
  intros Hwf Hinv Hne. cbv zeta. cbn [remove_widow_latents_fuel]. destruct (widows d) as [|w0 wt] eqn:Ew; [congruence|]. cbn [is_nil]. rewrite <- Ew.
  assert (HS : incl (widows d) (llat d)) by apply widows_incl.
  assert (Hwf1 : lwf (lv_remove_nodes d (widows d))) by (apply rm_lwf; assumption).
  assert (Hex1 : all_exo (lv_remove_nodes d (widows d))).
  { intros K HK. apply rm_lat in HK. destruct HK as [HK HKS]. apply rm_exo. destruct (Hinv K HK) as [H|H]; [exact H|].
    exfalso. apply HKS. apply widows_spec. auto. }
  destruct (widow_rounds f _ Hwf1 Hex1) as [H1 [H2 H3]]. split; [exact H1|]. split; [|exact H3].
  eapply same_proj_trans; [|exact H2]. apply remove_childless_same_proj; [exact Hwf|exact HS|].
  intros l Hl. apply widows_spec in Hl. tauto.
Qed.

Theorem remove_widows_result d : lwf d -> (forall K, latp d K -> exo d K \/ childless d K) ->
  let r := remove_widow_latents d in lwf r /\ same_proj d r /\ all_exo r.
Proof.
  intros Hwf Hinv. cbv zeta. unfold remove_widow_latents.
  destruct (widows d) as [|w0 wt] eqn:Ew.
  - rewrite widow_no_widows by exact Ew. split; [exact Hwf|]. split; [apply same_proj_refl|].
    intros K HK. destruct (Hinv K HK) as [H|H]; [exact H|]. exfalso.
    assert (Hin : In K (widows d)) by (apply widows_spec; auto). rewrite Ew in Hin. destruct Hin.
  - assert (Hin : In w0 (llat d)) by (apply widows_incl; rewrite Ew; left; reflexivity).
    destruct (llat d) as [|l0 lt] eqn:El; [destruct Hin|]. cbn [length].
    apply widow_first_round; [exact Hwf|exact Hinv|rewrite Ew; discriminate].
Qed.

(* ---- with every latent exogenous, paths through latents are single edges ---- *)
Lemma exo_path d x y : lwf d -> all_exo d -> LPath d x y -> Ed d x y.
Proof. intros _ Hex Hp. destruct Hp as [u v He|u l v He Hl _]; [exact He|]. exfalso. exact (Hex l Hl u He). Qed.

(* ---- latents with a single child ---- *)
Theorem remove_unidirectional_result d : lwf d -> all_exo d ->
  let r := remove_unidirectional_latents d in lwf r /\ same_proj d r /\ all_exo r.
Proof.
  intros Hwf Hex. cbv zeta. unfold remove_unidirectional_latents.
  set (S := filter (fun l => Nat.eqb (length (lsuccs d l)) 1) (llat d)).
  assert (HS : incl S (llat d)) by (intros x Hx; apply filter_In in Hx; tauto).
  split; [apply rm_lwf; assumption|]. split.
  - apply remove_same_proj; [exact HS| |].
    + intros x y Hp Hx Hy. apply lp_edge. apply rm_E. split; [apply exo_path; assumption|tauto].
    + intros l a b Hl Hln Hpa Hpb _ _ Hab. exists l. repeat split; try assumption. intros F. apply filter_In in F. destruct F as [_ F].
      apply Nat.eqb_eq in F. apply (exo_path d l a Hwf Hex) in Hpa. apply (exo_path d l b Hwf Hex) in Hpb.
      apply In_lsuccs' in Hpa, Hpb. destruct (lsuccs d l) as [|c [|c' t]]; try discriminate.
      destruct Hpa as [<-|[]], Hpb as [<-|[]]. congruence.
  - intros K HK. apply rm_lat in HK. apply rm_exo. apply Hex. tauto.
Qed.
