(* C12: the conditional term builder P(c1, .., ck | p1, .., pm) on well-formed, pairwise distinct variables gives a well-formed term. *)
From Coq Require Import List Bool Arith Lia Permutation.
From Y0 Require Import Base.ListSet Dsl.Syntax Dsl.Text Dsl.Print Dsl.Build Dsl.Canon Dsl.Parse
  Proofs.SortP Proofs.ExprP Proofs.SurgeryP Proofs.SumSimpP Proofs.OrderP Proofs.CanonNfP Proofs.CanonNf3P Proofs.TokenizeP Proofs.ParseP Proofs.EvalP Proofs.EvalSemP Proofs.BuiltP2.
Import ListNotations.
Open Scope list_scope.

(* ---------------------------------------------------------------- the interventional builder P[x1, .., xk](...) *)
Lemma NoDup_map_incl {A B} (k : A -> B) (l l' : list A) : NoDup (map k l) -> NoDup l' -> incl l' l -> NoDup (map k l').
Proof.
  intros Hk Hn Hi.
  assert (inj : forall a b, In a l -> In b l -> k a = k b -> a = b).
  { clear l' Hn Hi. induction l as [|x t IH]; intros a b Ha Hb E; [destruct Ha|]. cbn [map] in Hk. inversion Hk as [|? ? Hnx Ht]; subst.
    destruct Ha as [<-|Ha], Hb as [<-|Hb]; [reflexivity| | |apply IH; assumption].
    - exfalso. apply Hnx. rewrite E. apply in_map. exact Hb.
    - exfalso. apply Hnx. rewrite <- E. apply in_map. exact Ha. }
  induction Hn as [|x t Hx Ht IH]; [constructor|]. cbn [map]. constructor.
  - intros Hin. apply in_map_iff in Hin. destruct Hin as [y [E Hy]]. apply Hx. rewrite (inj x y); [exact Hy|apply Hi; left; reflexivity|apply Hi; right; exact Hy|symmetry; exact E].
  - apply IH. intros y Hy. apply Hi. right. exact Hy.
Qed.

Definition flat_var (v : var) : bool := wfvar v && negb (eqb (vk v) KCf).

Lemma norm_ivs_idem l : norm_ivs (norm_ivs l) = norm_ivs l.
Proof.
  unfold norm_ivs at 1. rewrite (dedup_NoDup_id _ (norm_ivs_NoDup l)). apply stable_sort_sorted_id.
  unfold norm_ivs. apply stable_sort_sorted; [exact iv_lt_irrefl|exact iv_lt_trans].
Qed.

Lemma flat_intervene v xs J : flat_var v = true -> norm_ivs (map to_intervention xs) = J -> J <> [] ->
  var_intervene v xs = Some (mkVar KCf (vn v) (vs v) J).
Proof.
  unfold flat_var. intros Hv HJ Hne. apply andb_true_iff in Hv. destruct Hv as [_ Hk]. apply negb_true_iff in Hk.
  unfold var_intervene. destruct (vk v); try (rewrite HJ; destruct J; [congruence|reflexivity]). cbn in Hk. discriminate.
Qed.

Theorem wf_prob_interventional pop pre c p post ivs :
  match pop with Some q => wfvar q = true | None => True end ->
  forallb flat_var (pre ++ c) = true -> forallb flat_var (p ++ post) = true -> forallb flat_var ivs = true ->
  NoDup (map (fun v => (vn v, vs v)) (pre ++ c)) -> NoDup (map (fun v => (vn v, vs v)) (p ++ post)) -> c <> [] ->
  is_err (prob_safe pop pre (Some (c, p)) post (Some ivs)) = false ->
  wf_sem (prob_safe pop pre (Some (c, p)) post (Some ivs)) = true.
Proof.
  intros Hpop Hch Hpa Hiv Nch Npa Hc Herr.
  set (J := norm_ivs (map to_intervention (upgrade_ordering ivs))).
  unfold prob_safe in *. set (cp := dist_safe pre (Some (c, p)) post) in *.
  unfold dist_intervene in *. cbn [fst snd] in *.
  assert (HJne : J <> []).
  { intros E. destruct (fst cp) as [|x xt] eqn:Ef.
    - unfold cp, dist_safe in Ef. cbn [fst] in Ef. destruct c as [|c0 ct]; [congruence|].
      assert (Hin : In c0 (sorted_variables (upgrade_ordering pre ++ c0 :: ct))) by (unfold sorted_variables; eapply Permutation_in; [apply stable_sort_perm|]; apply in_or_app; right; left; reflexivity).
      rewrite Ef in Hin. destruct Hin.
    - cbn [map_opt] in Herr. assert (Hx : flat_var x = true).
      { rewrite forallb_forall in Hch. apply Hch. assert (Hin : In x (fst cp)) by (rewrite Ef; left; reflexivity).
        unfold cp, dist_safe in Hin. cbn [fst] in Hin. unfold sorted_variables in Hin. apply (Permutation_in _ (Permutation_sym (stable_sort_perm _ _))) in Hin.
        apply in_app_or in Hin. apply in_or_app. destruct Hin as [Hin|Hin]; [left; apply In_upgrade; exact Hin|right; exact Hin]. }
      unfold flat_var in Hx. apply andb_true_iff in Hx. destruct Hx as [_ Hk]. apply negb_true_iff in Hk.
      unfold var_intervene in Herr. fold J in Herr. destruct (vk x); try (rewrite E in Herr; cbn in Herr; discriminate). }
  assert (Hmap : forall l, (forall v, In v l -> flat_var v = true) -> map_opt (fun v => var_intervene v (upgrade_ordering ivs)) l = Some (map (fun v => mkVar KCf (vn v) (vs v) J) l)).
  { induction l as [|a t IHt]; intros Hl; [reflexivity|]. cbn [map_opt map]. rewrite (flat_intervene a _ J (Hl a (or_introl eq_refl)) eq_refl HJne).
    rewrite IHt; [reflexivity|]. intros v Hv. apply Hl. right. exact Hv. }
  assert (Ich : forall v, In v (fst cp) -> In v (pre ++ c)).
  { intros v Hv. unfold cp, dist_safe in Hv. cbn [fst] in Hv. unfold sorted_variables in Hv. apply (Permutation_in _ (Permutation_sym (stable_sort_perm _ _))) in Hv.
    apply in_app_or in Hv. apply in_or_app. destruct Hv as [Hv|Hv]; [left; apply In_upgrade; exact Hv|right; exact Hv]. }
  assert (Ipa : forall v, In v (snd cp) -> In v (p ++ post)).
  { intros v Hv. unfold cp, dist_safe in Hv. cbn [snd] in Hv. unfold sorted_variables in Hv. apply (Permutation_in _ (Permutation_sym (stable_sort_perm _ _))) in Hv.
    apply in_app_or in Hv. apply in_or_app. destruct Hv as [Hv|Hv]; [left; exact Hv|right; apply In_upgrade; exact Hv]. }
  rewrite forallb_forall in Hch, Hpa.
  rewrite (Hmap (fst cp)) in * by (intros v Hv; apply Hch; apply Ich; exact Hv).
  rewrite (Hmap (snd cp)) in * by (intros v Hv; apply Hpa; apply Ipa; exact Hv).
  cbn [fst snd] in *. unfold prob_raw in *.
  set (f := fun v : var => mkVar KCf (vn v) (vs v) J) in *.
  destruct (map f (fst cp)) as [|x0 xt] eqn:Em; [discriminate|]. rewrite <- Em.
  (* the intervened variables are well formed *)
  assert (HJn : norm_ivs J = J) by (unfold J; apply norm_ivs_idem).
  assert (HJnames : forallb (fun i : nat * bool => name_ok (fst i)) J = true).
  { apply forallb_forall. intros i Hi. unfold J, norm_ivs in Hi. apply (Permutation_in _ (Permutation_sym (stable_sort_perm _ _))) in Hi.
    apply (proj1 (In_dedup _ _)) in Hi. apply in_map_iff in Hi. destruct Hi as [x [<- Hx]]. apply (proj1 (In_upgrade _ _)) in Hx.
    pose proof (proj1 (forallb_forall _ _) Hiv x Hx) as Hivx. clear Hiv. rename Hivx into Hiv. unfold flat_var, wfvar in Hiv. repeat (apply andb_true_iff in Hiv; destruct Hiv as [Hiv ?]).
    unfold to_intervention. destruct (vk x), (vs x); cbn [fst]; assumption. }
  assert (Hwf : forall v, flat_var v = true -> wfvar (f v) = true).
  { intros v Hv. unfold flat_var, wfvar in Hv. repeat (apply andb_true_iff in Hv; destruct Hv as [Hv ?]).
    unfold wfvar, f. cbn [vk vn vs vi]. rewrite Hv, HJnames, HJn, eqb_refl. destruct J; [congruence|reflexivity]. }
  (* order and distinctness survive: all new variables carry the same interventions *)
  assert (Hfix : forall l, fixed l -> (forall v, In v l -> flat_var v = true) -> NoDup (map (fun v => (vn v, vs v)) l) -> fixed (map f l)).
  { intros l Fl Hl Nl. apply fixed_iff in Fl. destruct Fl as [Sl _]. apply fixed_iff. split.
    - unfold sorted in *. clear Nl. induction Sl as [|a t St IHt Hfa]; [constructor|]. cbn [map]. constructor.
      + apply IHt. intros v Hv. apply Hl. right. exact Hv.
      + rewrite Forall_forall in *. intros b' Hb'. apply in_map_iff in Hb'. destruct Hb' as [b [<- Hb]]. specialize (Hfa b Hb).
        unfold nafter, var_sort_lt, f in *. cbn [vn vi]. apply orb_false_iff in Hfa. destruct Hfa as [Hlt _]. rewrite Hlt. cbn [orb].
        rewrite ivlist_cmp_lcmp. rewrite (c_refl _ (cmp_ok_lcmp _ cmp_ok_ivstr)). apply andb_false_r.
    - rewrite <- (map_map (fun v => (vn v, vs v)) (fun q => mkVar KCf (fst q) (snd q) J)).
      apply FinFun.Injective_map_NoDup; [|exact Nl]. intros [n1 s1] [n2 s2] E. inversion E. reflexivity. }
  assert (Fc : fixed (fst cp)) by (unfold cp, dist_safe; cbn [fst]; apply fixed_sorted_nodup; apply NoDup_upgrade_app; eapply NoDup_map_inv; exact Nch).
  assert (Fp : fixed (snd cp)) by (unfold cp, dist_safe; cbn [snd]; apply fixed_sorted_nodup; apply NoDup_app_upgrade; eapply NoDup_map_inv; exact Npa).
  pose proof (proj1 (fixed_iff _) Fc) as [_ Ndc]. pose proof (proj1 (fixed_iff _) Fp) as [_ Ndp].
  assert (Nc' : NoDup (map (fun v => (vn v, vs v)) (fst cp))) by (apply (NoDup_map_incl _ (pre ++ c)); [exact Nch|exact Ndc|exact Ich]).
  assert (Np' : NoDup (map (fun v => (vn v, vs v)) (snd cp))) by (apply (NoDup_map_incl _ (p ++ post)); [exact Npa|exact Ndp|exact Ipa]).
  assert (Gc : fixed (map f (fst cp))) by (apply Hfix; [exact Fc|intros v Hv; apply Hch; apply Ich; exact Hv|exact Nc']).
  assert (Gp : fixed (map f (snd cp))) by (apply Hfix; [exact Fp|intros v Hv; apply Hpa; apply Ipa; exact Hv|exact Np']).
  cbn [wf_sem]. repeat (apply andb_true_iff; split).
  - destruct pop; [exact Hpop|reflexivity].
  - apply forallb_forall. intros v' Hv'. apply in_map_iff in Hv'. destruct Hv' as [v [<- Hv]]. apply Hwf. apply Hch. apply Ich. exact Hv.
  - apply forallb_forall. intros v' Hv'. apply in_map_iff in Hv'. destruct Hv' as [v [<- Hv]]. apply Hwf. apply Hpa. apply Ipa. exact Hv.
  - rewrite Em. reflexivity.
  - unfold fixed in Gc. rewrite Gc. apply eqb_refl.
  - unfold fixed in Gp. rewrite Gp. apply eqb_refl.
Qed.
