(* C11, clause 2: the no-ties side conditions of [pres] hold for well-formed material - through C12: an expression in operator
   normal form is recovered from its printed text, so two such factors that print alike are the same factor; two well-formed
   variables with the same name and interventions that print alike are the same variable. *)
From Coq Require Import List Bool Arith Lia String Ascii OrderedTypeEx.
From Y0 Require Import Base.ListSet Dsl.Syntax Dsl.Text Dsl.Tok Dsl.Print Dsl.Build Dsl.Canon Dsl.Parse
  Proofs.OrderP Proofs.CanonNfP Proofs.CanonPresP Proofs.TokenizeP Proofs.EvalP.
Import ListNotations.
Open Scope list_scope.

Theorem to_y0_injective a b : wf_rt a = true -> wf_rt b = true -> to_y0 a = to_y0 b -> a = b.
Proof.
  intros Ha Hb E. rewrite <- (proj1 (round_trip a Ha)), <- (proj1 (round_trip b Hb)), E. reflexivity.
Qed.

(* canonical factors in operator normal form never tie in Product.safe's key unless they are equal *)
Theorem etie_free_wf l : (forall x, In x l -> wf_rt x = true) -> etie_free l.
Proof.
  intros Hl a b Ha Hb E1 E2. destruct (expr_lt_tie a b E1 E2) as [Ey _]. apply to_y0_injective; auto.
Qed.

(* ---------------------------------------------------------------- variables *)
Lemma name_first n : name_ok n = true -> exists c rest, name_str n = String c rest /\ c <> "+"%char /\ c <> "-"%char.
Proof.
  unfold name_ok. intros H. apply Nat.ltb_lt in H.
  do 24 (destruct n as [|n]; [eexists; eexists; split; [reflexivity|split; discriminate]|]). lia.
Qed.

Lemma lcmp_eq {T} (c : T -> T -> comparison) : (forall x y, c x y = Eq -> x = y) -> forall l1 l2, lcmp c l1 l2 = Eq -> l1 = l2.
Proof.
  intros Hc. induction l1 as [|x t IH]; intros [|y u] E; cbn [lcmp] in E; try discriminate; [reflexivity|].
  destruct (c x y) eqn:Exy; cbn [lexc] in E; try discriminate. rewrite (Hc x y Exy), (IH u E). reflexivity.
Qed.

Lemma ivstr_cmp_eq x y : ivstr_cmp x y = Eq -> x = y.
Proof.
  destruct x as [n1 [|]], y as [n2 [|]]; unfold ivstr_cmp; cbn [fst snd]; intros E; try discriminate; apply Nat.compare_eq_iff in E; subst; reflexivity.
Qed.

Lemma var_y0_split v : var_y0 v = (render (sign_toks (vs v)) ++ render (name_tok (vn v) :: match vk v, vi v with
    | KCf, [i] => ssym "@" :: spaced (iv_toks i)
    | KCf, ivs => [ssym "@"; ssym "("] ++ jointk (sym ",") true (map iv_toks ivs) ++ [sym ")"]
    | _, _ => []
    end))%string.
Proof.
  unfold var_y0, var_toks. destruct (vk v); try (rewrite render_app; reflexivity). destruct (vi v) as [|i [|j t]]; rewrite render_app; reflexivity.
Qed.

Lemma sign_render_inj s1 s2 c R : c <> "+"%char -> c <> "-"%char ->
  (render (sign_toks s1) ++ String c R)%string = (render (sign_toks s2) ++ String c R)%string -> s1 = s2.
Proof.
  intros H1 H2. destruct s1 as [[|]|], s2 as [[|]|]; cbn; intros E; try reflexivity; try (injection E; intros; congruence).
Qed.

Theorem var_tie_equal a b : wfvar a = true -> wfvar b = true -> vn a = vn b -> vi a = vi b -> var_y0 a = var_y0 b -> a = b.
Proof.
  intros Ha Hb En Ei Ey.
  assert (Hna : name_ok (vn a) = true) by (unfold wfvar in Ha; apply andb_true_iff in Ha; destruct Ha as [Ha _]; apply andb_true_iff in Ha; apply Ha).
  (* the kind is determined by the value mark and the interventions *)
  assert (Hk : forall v, wfvar v = true -> vk v = match vi v with [] => match vs v with None => KVar | Some _ => KIv end | _ => KCf end).
  { intros v Hv. unfold wfvar in Hv. apply andb_true_iff in Hv. destruct Hv as [_ Hv]. destruct (vk v).
    - apply andb_true_iff in Hv. destruct Hv as [H1 H2]. destruct (vs v); [discriminate|]. destruct (vi v); [reflexivity|discriminate].
    - apply andb_true_iff in Hv. destruct Hv as [H1 H2]. destruct (vs v); [|discriminate]. destruct (vi v); [reflexivity|discriminate].
    - apply andb_true_iff in Hv. destruct Hv as [H1 _]. destruct (vi v); [discriminate|reflexivity]. }
  assert (Es : vs a = vs b).
  { rewrite (var_y0_split a), (var_y0_split b) in Ey. rewrite (Hk a Ha), (Hk b Hb), <- Ei, <- En in Ey.
    destruct (name_first (vn a) Hna) as [c [rest [Ec [C1 C2]]]].
    destruct (vi a) as [|i [|j t]]; destruct (vs a) as [[|]|]; destruct (vs b) as [[|]|]; try reflexivity; exfalso;
      cbn [sign_toks render tok_str sym fst snd name_tok nm] in Ey; rewrite Ec in Ey; cbn [append] in Ey; congruence. }
  pose proof (Hk a Ha) as Ka. pose proof (Hk b Hb) as Kb. rewrite <- Ei, <- Es in Kb.
  destruct a as [ka na sa ia], b as [kb nb sb ib]. cbn [vk vn vs vi] in *. subst. reflexivity.
Qed.

(* well-formed variables with a level never tie in the canonicalizer's key unless they are equal *)
Theorem vtie_free_wf o l : forallb wfvar l = true -> forallb (has_level o) l = true -> vtie_free o l.
Proof.
  intros Hw Hl a b Ha Hb E1 E2. rewrite forallb_forall in Hw, Hl. unfold vlt in *.
  rewrite (canon_var_lt_cmp o a b (Hl a Ha) (Hl b Hb)) in E1. rewrite (canon_var_lt_cmp o b a (Hl b Hb) (Hl a Ha)) in E2.
  rewrite (c_anti _ (cmp_ok_canon_var o) a b) in E2.
  assert (E : canon_var_cmp o a b = Eq) by (destruct (canon_var_cmp o a b); [reflexivity|discriminate|discriminate]).
  unfold canon_var_cmp in E. destruct (Nat.compare (lvl o a) (lvl o b)); cbn [lexc] in E; try discriminate.
  unfold var_sort_cmp in E. destruct (Nat.compare (vn a) (vn b)) eqn:En; cbn [lexc] in E; try discriminate.
  destruct (lcmp ivstr_cmp (vi a) (vi b)) eqn:Ei; cbn [lexc] in E; try discriminate.
  apply Nat.compare_eq_iff in En. apply (lcmp_eq _ ivstr_cmp_eq) in Ei. apply String_as_OT.cmp_eq in E.
  apply var_tie_equal; auto.
Qed.
