From Coq Require Import List Bool Arith Lia.
From Y0 Require Import Base.ListSet Graph.Closure Graph.Paths Graph.MixedGraph Graph.DSep
  Proofs.ClosureP Proofs.SurgeryP.
Import ListNotations.

Section DSepP.
  Context {A : Type} `{EqB A}.
  Notation mg := (mg A).

  Theorem dsep_keyerror (g : mg) a b C :
    are_d_separated g a b C = DKeyError <-> ~ (In a (nodes g) /\ In b (nodes g) /\ incl C (nodes g)).
  Proof.
    unfold are_d_separated.
    destruct (mem a (nodes g) && mem b (nodes g) && subset C (nodes g)) eqn:E; simpl.
    - rewrite !andb_true_iff, !mem_In, subset_incl in E. split.
      + destruct (mem a C || mem b C); discriminate.
      + intros N. exfalso. apply N. tauto.
    - split; [|reflexivity]. intros _ [Ha [Hb Hc]].
      rewrite (proj2 (mem_In a (nodes g)) Ha), (proj2 (mem_In b (nodes g)) Hb), (proj2 (subset_incl C (nodes g)) Hc) in E.
      discriminate.
  Qed.

  Theorem dsep_total (g : mg) a b C :
    In a (nodes g) -> In b (nodes g) -> incl C (nodes g) -> ~ In a C -> ~ In b C ->
    exists s, are_d_separated g a b C = DOk s.
  Proof.
    intros Ha Hb HC Na Nb. unfold are_d_separated.
    rewrite (proj2 (mem_In a (nodes g)) Ha), (proj2 (mem_In b (nodes g)) Hb), (proj2 (subset_incl C (nodes g)) HC).
    rewrite (proj2 (mem_false a C) Na), (proj2 (mem_false b C) Nb). simpl. eexists. reflexivity.
  Qed.
End DSepP.

(* The pinned tree before the repair: C -> A <-> B, (C, B | A) reported separated although the
   path C -> A <- U -> B is active given A.  Nodes: A=0, B=1, C=2. *)
Theorem dsep_old_refuted :
  exists (g : mg nat) a b C,
    is_acyclic g = true /\ are_d_separated_old g a b C = DOk true /\ d_separated_spec g a b C = false.
Proof. exists (MG [0; 1; 2] [(2, 0)] [(0, 1)]), 2, 1, [0]. vm_compute. auto. Qed.

(* the repaired code agrees with the specification on that witness *)
Example dsep_witness_repaired :
  are_d_separated (MG [0; 1; 2] [(2, 0)] [(0, 1)]) 2 1 [0] = DOk false.
Proof. vm_compute. reflexivity. Qed.

(* Bounded agreement (NOT the unbounded claim): on the complete finite family of graphs over
   nodes {0,1,2} whose edges are drawn from the six listed slots, every triple agrees with the spec. *)
Definition subsets {T} (l : list T) : list (list T) :=
  fold_right (fun x acc => acc ++ map (cons x) acc) [[]] l.

Definition small_graphs : list (mg nat) :=
  flat_map (fun ds => map (fun bs => MG [0; 1; 2] ds bs) (subsets [(0, 1); (0, 2); (1, 2)]))
           (subsets [(0, 1); (0, 2); (1, 2); (1, 0); (2, 0); (2, 1)]).

Definition triples3 : list (nat * nat * list nat) :=
  [(0, 1, []); (0, 1, [2]); (0, 2, []); (0, 2, [1]); (1, 2, []); (1, 2, [0]);
   (1, 0, []); (1, 0, [2]); (2, 0, []); (2, 0, [1]); (2, 1, []); (2, 1, [0])].

Definition agrees (g : mg nat) (t : nat * nat * list nat) : bool :=
  let '(a, b, C) := t in
  match are_d_separated g a b C with DOk s => Bool.eqb s (d_separated_spec g a b C) | _ => false end.

Theorem dsep_agrees_bounded_3 :
  forall g t, In g small_graphs -> is_acyclic g = true -> In t triples3 -> agrees g t = true.
Proof.
  assert (Hb : forallb (fun g => negb (is_acyclic g) || forallb (agrees g) triples3) small_graphs = true)
    by (vm_compute; reflexivity).
  intros g t Hg Ha Ht. rewrite forallb_forall in Hb. specialize (Hb g Hg). rewrite Ha in Hb. cbn [negb orb] in Hb.
  rewrite forallb_forall in Hb. apply Hb. exact Ht.
Qed.
