(* C16, part 5: the simplified DAG is a fixed point of the simplification. *)
From Coq Require Import List Bool Arith Lia Permutation.
From Y0 Require Import Base.ListSet Graph.Closure Graph.MixedGraph Graph.DSep Graph.LatentDag
  Proofs.SurgeryP Proofs.CondIndP Proofs.LatentDagP Proofs.KahnSoundP Proofs.LvProjP Proofs.LvFoldP Proofs.LvRemoveP Proofs.LvFinalP.
Import ListNotations.

Lemma filter_length_le'' {T} (p : T -> bool) l : length (filter p l) <= length l.
Proof. induction l as [|a t IH]; cbn [filter length]; [lia|]. destruct (p a); cbn [length]; lia. Qed.

Definition uni (d : lv) : list nat := filter (fun l => Nat.eqb (length (lsuccs d l)) 1) (llat d).

Lemma diff_nil (l : list nat) : diff l [] = l.
Proof. unfold diff. apply filter_all'. intros x _. reflexivity. Qed.

Lemma remove_nothing d : lv_remove_nodes d [] = d.
Proof.
  destruct d as [ns es ls]. unfold lv_remove_nodes. cbn [lnodes ledges llat]. rewrite !diff_nil. f_equal.
  apply filter_all'. intros e _. reflexivity.
Qed.

Lemma filter_filter_absorb {T} (p q : T -> bool) l : (forall e, In e l -> p e = true -> q e = true) -> filter p (filter q l) = filter p l.
Proof.
  induction l as [|a t IH]; intros H; [reflexivity|]. cbn [filter].
  assert (Ht : forall e, In e t -> p e = true -> q e = true) by (intros e He; apply H; right; exact He).
  destruct (q a) eqn:Eq; cbn [filter].
  - rewrite (IH Ht). reflexivity.
  - destruct (p a) eqn:Ep; [rewrite (H a (or_introl eq_refl) Ep) in Eq; discriminate|apply IH; exact Ht].
Qed.

(* removing latents does not change the children of the latents that stay, when every latent is exogenous *)
Lemma children_kept d S l : lwf d -> all_exo d -> incl S (llat d) -> ~ In l S -> lsuccs (lv_remove_nodes d S) l = lsuccs d l.
Proof.
  intros Hwf Hex HS Hl. unfold lsuccs, lv_remove_nodes. cbn [ledges]. f_equal. f_equal. apply filter_filter_absorb.
  intros [u c] He Hp. cbn [fst snd] in *. apply Nat.eqb_eq in Hp. subst u. apply andb_true_iff. split; apply negb_true_iff; apply mem_false.
  - exact Hl.
  - intros Hc. apply HS in Hc. exact (Hex c Hc l He).
Qed.

Lemma widows_nil_iff d : widows d = [] <-> forall l, latp d l -> ~ childless d l.
Proof.
  split.
  - intros E l Hl Hc. assert (Hin : In l (widows d)) by (apply widows_spec; auto). rewrite E in Hin. destruct Hin.
  - intros H. destruct (widows d) as [|w t] eqn:E; [reflexivity|]. exfalso.
    assert (Hw : In w (widows d)) by (rewrite E; left; reflexivity). apply widows_spec in Hw. destruct Hw as [Hl Hc]. exact (H w Hl Hc).
Qed.

Lemma not_childless_lsuccs d l : ~ childless d l <-> lsuccs d l <> [].
Proof.
  split.
  - intros H E. apply H. intros v He. apply In_lsuccs' in He. rewrite E in He. destruct He.
  - intros H Hc. destruct (lsuccs d l) as [|c t] eqn:E; [congruence|]. apply (Hc c). apply In_lsuccs'. rewrite E. left. reflexivity.
Qed.

(* the widow loop runs until no childless latent is left *)
Lemma widow_loop_ends fuel : forall d, length (llat d) <= fuel -> widows (remove_widow_latents_fuel fuel d) = [].
Proof.
  induction fuel as [|f IH]; intros d Hlen; cbn [remove_widow_latents_fuel].
  - destruct (widows d) as [|w t] eqn:E; [cbn [is_nil]; exact E|]. exfalso.
    assert (Hw : In w (llat d)) by (apply widows_incl; rewrite E; left; reflexivity). destruct (llat d); [destruct Hw|cbn in Hlen; lia].
  - destruct (widows d) as [|w t] eqn:E; [cbn [is_nil]; exact E|]. cbn [is_nil]. apply IH. rewrite <- E.
    assert (Hw : In w (llat d)) by (apply widows_incl; rewrite E; left; reflexivity).
    assert (Hww : In w (widows d)) by (rewrite E; left; reflexivity).
    unfold lv_remove_nodes. cbn [llat]. unfold diff.
    assert (Hlt : length (filter (fun x => negb (mem x (widows d))) (llat d)) < length (llat d)).
    { clear - Hw Hww. induction (llat d) as [|a u IHu]; [destruct Hw|]. cbn [filter length].
      pose proof (filter_length_le'' (fun x => negb (mem x (widows d))) u) as Hle.
      destruct Hw as [->|Hw].
      - rewrite (proj2 (mem_In w (widows d)) Hww). cbn [negb]. lia.
      - specialize (IHu Hw). destruct (negb (mem a (widows d))); cbn [length]; lia. }
    lia.
Qed.

Section Idem.
  Variable d : lv.
  Hypothesis Hwf : lwf d.
  Hypothesis Hnd : NoDup (lnodes d).
  Hypothesis Hfresh : forall K, latp d K -> ~ In (prime K) (lnodes d).
  Hypothesis Hacyc : is_acyclic (MG (lnodes d) (ledges d) []) = true.

  Let t1 := transform_latents_with_parents d.
  Let t2 := remove_widow_latents t1.
  Let t3 := remove_unidirectional_latents t2.
  Let t4 := remove_redundant_latents t3.

  Lemma stages : lwf t2 /\ all_exo t2 /\ widows t2 = [] /\
                 lwf t3 /\ all_exo t3 /\ widows t3 = [] /\ uni t3 = [] /\
                 lwf t4 /\ all_exo t4 /\ widows t4 = [] /\ uni t4 = [] /\ redundant t4 = [].
  Proof.
    destruct (transform_result d Hwf Hnd Hfresh Hacyc) as [W1 [_ I1]]. fold t1 in W1, I1.
    destruct (remove_widows_result _ W1 I1) as [W2 [_ X2]]. fold t2 in W2, X2.
    destruct (remove_unidirectional_result _ W2 X2) as [W3 [_ X3]]. fold t3 in W3, X3.
    destruct (remove_redundant_result _ W3 X3) as [W4 [_ X4]]. fold t4 in W4, X4.
    assert (N2 : widows t2 = []) by (unfold t2, remove_widow_latents; apply widow_loop_ends; apply le_n).
    assert (HS3 : incl (uni t2) (llat t2)) by (intros x Hx; apply filter_In in Hx; tauto).
    assert (K3 : forall l, latp t3 l -> latp t2 l /\ ~ In l (uni t2) /\ lsuccs t3 l = lsuccs t2 l).
    { intros l Hl. unfold t3, remove_unidirectional_latents in Hl. apply rm_lat in Hl. destruct Hl as [Hl Hn].
      split; [exact Hl|]. split; [exact Hn|]. apply children_kept; assumption. }
    assert (N3 : widows t3 = []).
    { apply widows_nil_iff. intros l Hl. destruct (K3 l Hl) as [Hl2 [_ E]]. apply not_childless_lsuccs. rewrite E.
      apply not_childless_lsuccs. apply (proj1 (widows_nil_iff t2) N2 l Hl2). }
    assert (U3 : uni t3 = []).
    { unfold uni. apply filter_none. intros l Hl. destruct (K3 l Hl) as [Hl2 [Hn E]]. rewrite E.
      destruct (Nat.eqb (length (lsuccs t2 l)) 1) eqn:E1; [|reflexivity]. exfalso. apply Hn. apply filter_In. split; [exact Hl2|exact E1]. }
    assert (HS4 : incl (redundant t3) (llat t3)) by (intros x Hx; apply redundant_spec in Hx; apply Hx).
    assert (K4 : forall l, latp t4 l -> latp t3 l /\ ~ In l (redundant t3) /\ lsuccs t4 l = lsuccs t3 l).
    { intros l Hl. unfold t4, remove_redundant_latents in Hl. apply rm_lat in Hl. destruct Hl as [Hl Hn].
      split; [exact Hl|]. split; [exact Hn|]. apply children_kept; assumption. }
    assert (N4 : widows t4 = []).
    { apply widows_nil_iff. intros l Hl. destruct (K4 l Hl) as [Hl3 [_ E]]. apply not_childless_lsuccs. rewrite E.
      apply not_childless_lsuccs. apply (proj1 (widows_nil_iff t3) N3 l Hl3). }
    assert (U4 : uni t4 = []).
    { unfold uni. apply filter_none. intros l Hl. destruct (K4 l Hl) as [Hl3 [_ E]]. rewrite E.
      destruct (Nat.eqb (length (lsuccs t3 l)) 1) eqn:E1; [|reflexivity]. exfalso.
      assert (Hin : In l (uni t3)) by (apply filter_In; split; [exact Hl3|exact E1]). rewrite U3 in Hin. destruct Hin. }
    assert (R4 : redundant t4 = []).
    { destruct (redundant t4) as [|l rt] eqn:E; [reflexivity|]. exfalso.
      assert (Hin : In l (redundant t4)) by (rewrite E; left; reflexivity). apply redundant_spec in Hin. destruct Hin as [Hl [r [Hr Hc]]].
      destruct (K4 l Hl) as [Hl3 [Hn El]]. destruct (K4 r Hr) as [Hr3 [_ Er]]. rewrite El, Er in Hc.
      apply Hn. apply redundant_spec. split; [exact Hl3|]. exists r. split; [exact Hr3|exact Hc]. }
    exact (conj W2 (conj X2 (conj N2 (conj W3 (conj X3 (conj N3 (conj U3 (conj W4 (conj X4 (conj N4 (conj U4 R4))))))))))).
  Qed.

  Lemma fold_fixed order : forall s, all_exo s -> fold_left step order s = s.
  Proof.
    induction order as [|L o IH]; intros s Hex; [reflexivity|]. cbn [fold_left].
    assert (E : step s L = s).
    { unfold step. destruct (mem L (llat s)) eqn:Em; [|reflexivity]. apply mem_In in Em. unfold transform_one.
      destruct (lpreds s L) as [|p t] eqn:Ep; [reflexivity|]. exfalso.
      assert (Hp : Ed s p L) by (apply In_lpreds'; rewrite Ep; left; reflexivity). exact (Hex L Em p Hp). }
    rewrite E. apply IH. exact Hex.
  Qed.

  Theorem simplification_is_idempotent : simplify_latent_dag (simplify_latent_dag d) = simplify_latent_dag d.
  Proof.
    destruct stages as [_ [_ [_ [_ [_ [_ [_ [W4 [X4 [N4 [U4 R4]]]]]]]]]]].
    change (simplify_latent_dag d) with t4. unfold simplify_latent_dag.
    assert (E1 : transform_latents_with_parents t4 = t4).
    { unfold transform_latents_with_parents. change (fun acc L => if mem L (llat acc) then transform_one acc L else acc) with step. apply fold_fixed. exact X4. }
    rewrite E1.
    assert (E2 : remove_widow_latents t4 = t4) by (unfold remove_widow_latents; apply widow_no_widows; exact N4).
    rewrite E2.
    assert (E3 : remove_unidirectional_latents t4 = t4).
    { unfold remove_unidirectional_latents. change (filter (fun l => Nat.eqb (length (lsuccs t4 l)) 1) (llat t4)) with (uni t4). rewrite U4. apply remove_nothing. }
    rewrite E3. unfold remove_redundant_latents. rewrite R4. apply remove_nothing.
  Qed.
End Idem.
