(* C12, lexical layer: the tokenizer reads a rendered token list back, token for token, whenever every name token is an
   identifier, every symbol token is neither an identifier character nor a space, and no name directly follows a name
   without a space in between. The printer's token lists satisfy this for variables named by the harness alphabet. *)
From Coq Require Import List Bool Arith Lia String Ascii Permutation.
From Y0 Require Import Base.ListSet Dsl.Syntax Dsl.Text Dsl.Tok Dsl.Print Dsl.Parse Proofs.SortP.
Import ListNotations.
Open Scope list_scope.

Fixpoint all_ident (s : string) : bool :=
  match s with EmptyString => true | String c r => is_ident_char c && all_ident r end.

Definition tok_ok (t : token) : bool :=
  match t with
  | TName s => all_ident s && negb (String.eqb s "")
  | TSym c => negb (is_ident_char c) && negb (Ascii.eqb c " ")
  end.

Definition tight_name_first (l : list stok) : bool :=
  match l with (false, TName _) :: _ => true | _ => false end.

Fixpoint adj_ok (l : list stok) : bool :=
  match l with
  | [] => true
  | (_, TName _) :: r => negb (tight_name_first r) && adj_ok r
  | (_, TSym _) :: r => adj_ok r
  end.

Definition flushl (cur : string) (acc : list token) : list token :=
  match cur with EmptyString => acc | _ => acc ++ [TName cur] end.

Lemma tokenize_acc_eq s cur acc :
  tokenize_acc s cur acc =
  match s with
  | EmptyString => flushl cur acc
  | String c rest =>
      if is_ident_char c then tokenize_acc rest (cur ++ String c EmptyString) acc
      else if Ascii.eqb c " " then tokenize_acc rest "" (flushl cur acc)
      else tokenize_acc rest "" (flushl cur acc ++ [TSym c])
  end.
Proof. destruct s; reflexivity. Qed.

Lemma tk_name s : all_ident s = true -> forall rest cur acc, tokenize_acc (s ++ rest) cur acc = tokenize_acc rest (cur ++ s) acc.
Proof.
  induction s as [|c s IH]; intros Hs rest cur acc.
  - cbn [append]. replace (cur ++ "")%string with cur; [reflexivity|]. clear. induction cur as [|a cur IH]; cbn; [reflexivity|]. rewrite <- IH. reflexivity.
  - cbn [all_ident] in Hs. apply andb_true_iff in Hs. destruct Hs as [Hc Hs]. cbn [append]. rewrite tokenize_acc_eq. rewrite Hc.
    rewrite (IH Hs). rewrite sapp_assoc. reflexivity.
Qed.

Lemma flushl_nonempty s acc : String.eqb s "" = false -> flushl s acc = acc ++ [TName s].
Proof. destruct s; [discriminate|reflexivity]. Qed.

Theorem tk_render : forall l, forallb tok_ok (map snd l) = true -> adj_ok l = true ->
  forall cur acc, (cur = EmptyString \/ tight_name_first l = false) ->
  tokenize_acc (render l) cur acc = flushl cur acc ++ map snd l.
Proof.
  induction l as [|[sp t] r IH]; intros Hok Hadj cur acc Hc.
  - cbn [render map]. rewrite tokenize_acc_eq, app_nil_r. reflexivity.
  - cbn [map snd forallb] in Hok. apply andb_true_iff in Hok. destruct Hok as [Ht Hr]. cbn [render map snd].
    destruct t as [s|c].
    + cbn [tok_ok] in Ht. apply andb_true_iff in Ht. destruct Ht as [Hs Hne]. apply negb_true_iff in Hne.
      cbn [adj_ok] in Hadj. apply andb_true_iff in Hadj. destruct Hadj as [Hti Hadj]. apply negb_true_iff in Hti.
      cbn [tok_str]. destruct sp.
      * change (" " ++ s ++ render r)%string with (String " " (s ++ render r)). rewrite tokenize_acc_eq.
        change (is_ident_char " ") with false. cbv iota. change (Ascii.eqb " " " ") with true. cbv iota.
        rewrite (tk_name s Hs). change ("" ++ s)%string with s.
        rewrite (IH Hr Hadj s (flushl cur acc) (or_intror Hti)). rewrite (flushl_nonempty s _ Hne). rewrite <- app_assoc. reflexivity.
      * destruct Hc as [->|Hc]; [|discriminate]. change ("" ++ s ++ render r)%string with (s ++ render r)%string.
        rewrite (tk_name s Hs). change ("" ++ s)%string with s.
        rewrite (IH Hr Hadj s acc (or_intror Hti)). rewrite (flushl_nonempty s _ Hne). cbn [flushl]. rewrite <- app_assoc. reflexivity.
    + cbn [tok_ok] in Ht. apply andb_true_iff in Ht. destruct Ht as [Hni Hns]. apply negb_true_iff in Hni, Hns.
      cbn [adj_ok] in Hadj. cbn [tok_str].
      assert (Hsym : forall cur0 acc0, tokenize_acc (String c "" ++ render r) cur0 acc0 = (flushl cur0 acc0 ++ [TSym c]) ++ map snd r).
      { intros cur0 acc0. change (String c "" ++ render r)%string with (String c (render r)). rewrite tokenize_acc_eq. rewrite Hni, Hns.
        rewrite (IH Hr Hadj "" _ (or_introl eq_refl)). reflexivity. }
      destruct sp.
      * change (" " ++ String c "" ++ render r)%string with (String " " (String c "" ++ render r)). rewrite tokenize_acc_eq.
        change (is_ident_char " ") with false. cbv iota. change (Ascii.eqb " " " ") with true. cbv iota.
        rewrite Hsym. cbn [flushl]. rewrite <- app_assoc. reflexivity.
      * change ("" ++ String c "" ++ render r)%string with (String c "" ++ render r)%string. rewrite Hsym. rewrite <- app_assoc. reflexivity.
Qed.

Theorem tokenize_render l : forallb tok_ok (map snd l) = true -> adj_ok l = true -> tokenize (render l) = map snd l.
Proof. intros H1 H2. unfold tokenize. rewrite (tk_render l H1 H2 "" [] (or_introl eq_refl)). reflexivity. Qed.

(* ---------------------------------------------------------------- composing well-formed phrases *)
Definition ends_name (l : list stok) : bool := match rev l with (_, TName _) :: _ => true | _ => false end.

Definition phrase_ok (l : list stok) : bool := forallb tok_ok (map snd l) && adj_ok l.

Lemma tight_app l1 l2 : tight_name_first (l1 ++ l2) = match l1 with [] => tight_name_first l2 | _ => tight_name_first l1 end.
Proof. destruct l1 as [|[sp t] r]; reflexivity. Qed.

Lemma ends_name_cons a l : l <> [] -> ends_name (a :: l) = ends_name l.
Proof.
  intros Hne. unfold ends_name. cbn [rev]. destruct (rev l) as [|x t] eqn:E.
  - exfalso. apply Hne. rewrite <- (rev_involutive l), E. reflexivity.
  - reflexivity.
Qed.

Lemma adj_ok_app l1 : forall l2, adj_ok (l1 ++ l2) = adj_ok l1 && adj_ok l2 && negb (ends_name l1 && tight_name_first l2).
Proof.
  induction l1 as [|[sp t] r IH]; intros l2.
  - cbn [app adj_ok ends_name rev]. rewrite andb_true_r. reflexivity.
  - cbn [app adj_ok]. rewrite IH. destruct r as [|b r'].
    + cbn [app adj_ok ends_name rev tight_name_first]. destruct t; cbn [andb negb]; [|rewrite andb_true_r; reflexivity].
      destruct (tight_name_first l2); cbn [negb andb]; [rewrite andb_false_r; reflexivity|rewrite andb_true_r; reflexivity].
    + rewrite (ends_name_cons (sp, t) (b :: r')) by discriminate. rewrite tight_app.
      destruct t; [|reflexivity]. rewrite <- !andb_assoc. reflexivity.
Qed.

Lemma phrase_app l1 l2 : phrase_ok l1 = true -> phrase_ok l2 = true -> ends_name l1 && tight_name_first l2 = false ->
  phrase_ok (l1 ++ l2) = true.
Proof.
  unfold phrase_ok. intros H1 H2 H3. apply andb_true_iff in H1, H2. destruct H1 as [A1 B1]. destruct H2 as [A2 B2].
  apply andb_true_iff. split.
  - rewrite map_app. rewrite forallb_app. apply andb_true_iff. split; assumption.
  - rewrite adj_ok_app, B1, B2, H3. reflexivity.
Qed.

Lemma ends_name_snoc_sym l b c : ends_name (l ++ [(b, TSym c)]) = false.
Proof. unfold ends_name. rewrite rev_app_distr. reflexivity. Qed.

Lemma spaced_ok l : phrase_ok l = true -> phrase_ok (spaced l) = true /\ tight_name_first (spaced l) = false.
Proof.
  destruct l as [|[sp t] r]; [auto|]. unfold phrase_ok. cbn [spaced map snd forallb adj_ok tight_name_first]. intros H. split; [|reflexivity].
  destruct t; exact H.
Qed.

Lemma ends_name_spaced l : ends_name (spaced l) = ends_name l.
Proof.
  destruct l as [|[sp t] r]; [reflexivity|]. cbn [spaced]. destruct r as [|b r']; [destruct t; reflexivity|].
  rewrite !(ends_name_cons _ (b :: r')) by discriminate. reflexivity.
Qed.

(* ---------------------------------------------------------------- the printer's token lists are well formed *)
Definition name_ok (n : nat) : bool := Nat.ltb n 24.
Definition var_names_ok (v : var) : bool := name_ok (vn v) && forallb (fun i : nat * bool => name_ok (fst i)) (vi v).
Fixpoint names_ok (e : expr) : bool :=
  match e with
  | EProb pop ch pa => match pop with Some p => var_names_ok p | None => true end && forallb var_names_ok ch && forallb var_names_ok pa
  | EProd es => forallb names_ok es
  | ESum e' rs => names_ok e' && forallb var_names_ok rs
  | EFrac n d => names_ok n && names_ok d
  | EQ dom cod => forallb var_names_ok dom && forallb var_names_ok cod
  | _ => true
  end.

Lemma name_tok_ok n : name_ok n = true -> tok_ok (TName (name_str n)) = true.
Proof.
  unfold name_ok. intros H. apply Nat.ltb_lt in H.
  do 24 (destruct n as [|n]; [reflexivity|]). lia.
Qed.

Ltac side := first [ reflexivity | apply andb_false_intro2; reflexivity | rewrite ends_name_snoc_sym; reflexivity ].

Lemma phrase_one t b : tok_ok t = true -> phrase_ok [(b, t)] = true.
Proof. intros H. unfold phrase_ok. cbn [map snd forallb adj_ok tight_name_first]. rewrite H. destruct t; reflexivity. Qed.

Lemma phrase_cons_sym b c l : tok_ok (TSym c) = true -> phrase_ok l = true -> phrase_ok ((b, TSym c) :: l) = true.
Proof.
  intros H Hl. change ((b, TSym c) :: l) with ([(b, TSym c)] ++ l). apply phrase_app; [apply phrase_one; exact H|exact Hl|reflexivity].
Qed.

Lemma phrase_snoc_sym b c l : tok_ok (TSym c) = true -> phrase_ok l = true -> phrase_ok (l ++ [(b, TSym c)]) = true.
Proof. intros H Hl. apply phrase_app; [exact Hl|apply phrase_one; exact H|apply andb_false_intro2; destruct b; reflexivity]. Qed.

Lemma sign_ok s : phrase_ok (sign_toks s) = true.
Proof. destruct s as [[|]|]; reflexivity. Qed.

Lemma sign_name_ok s n : name_ok n = true -> phrase_ok (sign_toks s ++ [name_tok n]) = true.
Proof.
  intros H. apply phrase_app; [apply sign_ok|apply phrase_one; apply name_tok_ok; exact H|]. destruct s as [[|]|]; reflexivity.
Qed.

Lemma iv_ok i : name_ok (fst i) = true -> phrase_ok (iv_toks i) = true.
Proof. intros H. unfold iv_toks. apply sign_name_ok. exact H. Qed.

Lemma jointk_ok b c after items : tok_ok (TSym c) = true -> (forall x, In x items -> phrase_ok x = true) ->
  phrase_ok (jointk (b, TSym c) after items) = true.
Proof.
  intros Hc. induction items as [|x t IH]; intros H; [reflexivity|]. destruct t as [|y t'].
  - cbn [jointk]. apply H. left. reflexivity.
  - change (jointk (b, TSym c) after (x :: y :: t')) with
      (x ++ [(b, TSym c)] ++ (if after then spaced (jointk (b, TSym c) after (y :: t')) else jointk (b, TSym c) after (y :: t'))).
    assert (HJ : phrase_ok (jointk (b, TSym c) after (y :: t')) = true) by (apply IH; intros z Hz; apply H; right; exact Hz).
    apply phrase_app; [apply H; left; reflexivity| |apply andb_false_intro2; destruct b; reflexivity].
    apply phrase_cons_sym; [exact Hc|]. destruct after; [apply spaced_ok; exact HJ|exact HJ].
Qed.

Lemma var_ok v : var_names_ok v = true -> phrase_ok (var_toks v) = true.
Proof.
  unfold var_names_ok. intros H. apply andb_true_iff in H. destruct H as [Hn Hi]. rewrite forallb_forall in Hi.
  pose proof (sign_name_ok (vs v) (vn v) Hn) as Hsn.
  unfold var_toks. destruct (vk v); try exact Hsn. destruct (vi v) as [|i [|j t]] eqn:Ei.
  - (* "X @ ()" *)
    change (sign_toks (vs v) ++ [name_tok (vn v); ssym "@"; ssym "("] ++ jointk (sym ",") true (map iv_toks []) ++ [sym ")"])
      with (sign_toks (vs v) ++ [name_tok (vn v)] ++ [ssym "@"; ssym "("; sym ")"]).
    rewrite app_assoc. apply phrase_app; [exact Hsn|reflexivity|apply andb_false_intro2; reflexivity].
  - change (sign_toks (vs v) ++ [name_tok (vn v); ssym "@"] ++ spaced (iv_toks i))
      with (sign_toks (vs v) ++ [name_tok (vn v)] ++ [ssym "@"] ++ spaced (iv_toks i)).
    rewrite app_assoc. apply phrase_app; [exact Hsn| |apply andb_false_intro2; reflexivity].
    apply phrase_cons_sym; [reflexivity|]. apply spaced_ok. apply iv_ok. apply Hi. left. reflexivity.
  - change (sign_toks (vs v) ++ [name_tok (vn v); ssym "@"; ssym "("] ++ jointk (sym ",") true (map iv_toks (i :: j :: t)) ++ [sym ")"])
      with (sign_toks (vs v) ++ [name_tok (vn v)] ++ [ssym "@"; ssym "("] ++ jointk (sym ",") true (map iv_toks (i :: j :: t)) ++ [sym ")"]).
    rewrite app_assoc. apply phrase_app; [exact Hsn| |apply andb_false_intro2; reflexivity].
    apply phrase_cons_sym; [reflexivity|]. apply phrase_cons_sym; [reflexivity|]. apply phrase_snoc_sym; [reflexivity|].
    apply jointk_ok; [reflexivity|]. intros x Hx. apply in_map_iff in Hx. destruct Hx as [k [<- Hk]]. apply iv_ok. apply Hi. exact Hk.
Qed.

Lemma vars_ok l : forallb var_names_ok l = true -> phrase_ok (vars_toks l) = true.
Proof.
  intros H. rewrite forallb_forall in H. unfold vars_toks. apply jointk_ok; [reflexivity|].
  intros x Hx. apply in_map_iff in Hx. destruct Hx as [v [<- Hv]]. apply var_ok. apply H. exact Hv.
Qed.

Lemma dist_ok ch pa : forallb var_names_ok ch = true -> forallb var_names_ok pa = true -> phrase_ok (dist_toks ch pa) = true.
Proof.
  intros Hc Hp. unfold dist_toks. destruct pa as [|p t]; [apply vars_ok; exact Hc|].
  apply phrase_app; [apply vars_ok; exact Hc| |apply andb_false_intro2; reflexivity].
  apply phrase_cons_sym; [reflexivity|]. apply spaced_ok. apply vars_ok. exact Hp.
Qed.

Lemma strip_names_ok l : forallb var_names_ok l = true -> forallb var_names_ok (map strip l) = true.
Proof.
  intros H. rewrite forallb_forall in *. intros x Hx. apply in_map_iff in Hx. destruct Hx as [v [<- Hv]].
  specialize (H v Hv). unfold var_names_ok in *. apply andb_true_iff in H. destruct H as [H _]. cbn [strip vn vi forallb]. rewrite H. reflexivity.
Qed.

Lemma by_name_v_ok l : forallb var_names_ok l = true -> forallb var_names_ok (by_name_v l) = true.
Proof.
  intros H. rewrite forallb_forall in *. intros x Hx. apply H. unfold by_name_v in Hx.
  eapply Permutation_in; [apply Permutation_sym; apply stable_sort_perm|exact Hx].
Qed.

From Y0 Require Import Proofs.ExprP Proofs.SurgeryP.

Lemma level2_source ch pa ivs : level2 ch pa = Some ivs -> exists v, In v (ch ++ pa) /\ vi v = ivs.
Proof.
  unfold level2. destruct (dedup _) as [|x [|y t]] eqn:E; try discriminate. destruct x as [|i0 it] eqn:Ex; [discriminate|].
  intros H. injection H as <-.
  assert (Hin : In (i0 :: it) (dedup (map (fun v => match vk v with KCf => vi v | _ => [] end) (ch ++ pa)))) by (rewrite E; left; reflexivity).
  apply (proj1 (In_dedup _ _)) in Hin. apply in_map_iff in Hin. destruct Hin as [v [Ev Hv]]. exists v. split; [exact Hv|].
  destruct (vk v); try discriminate; exact Ev.
Qed.

Lemma l2_ok ivs : forallb (fun i : nat * bool => name_ok (fst i)) ivs = true -> phrase_ok (l2_toks ivs) = true.
Proof.
  intros H. rewrite forallb_forall in H. unfold l2_toks. apply jointk_ok; [reflexivity|].
  intros x Hx. apply in_map_iff in Hx. destruct Hx as [i [<- Hi]]. specialize (H i Hi). destruct (snd i).
  - apply phrase_cons_sym; [reflexivity|]. apply phrase_one. apply name_tok_ok. exact H.
  - apply phrase_one. apply name_tok_ok. exact H.
Qed.

Lemma frac_body_ok n d : phrase_ok (toks n) = true -> phrase_ok (toks d) = true ->
  phrase_ok (toks n ++ [ssym "/"] ++ spaced (wrap_den false d (toks d))) = true.
Proof.
  intros Hn Hd. apply phrase_app; [exact Hn| |apply andb_false_intro2; reflexivity].
  apply phrase_cons_sym; [reflexivity|]. apply spaced_ok. unfold wrap_den. destruct d; try exact Hd.
  apply phrase_cons_sym; [reflexivity|]. apply phrase_snoc_sym; [reflexivity|exact Hd].
Qed.

Theorem toks_ok : forall e, names_ok e = true ->
  phrase_ok (toks e) = true /\ (forall n d, e = EFrac n d -> phrase_ok (toks n) = true /\ phrase_ok (toks d) = true).
Proof.
  induction e as [pop ch pa|es IH|e rs IH|n d IHn IHd| | |dm cd|k] using expr_ind'; intros Hn; (split; [|intros n0 d0 E; try discriminate]).
  - cbn [names_ok] in Hn. apply andb_true_iff in Hn. destruct Hn as [Hn Hpa]. apply andb_true_iff in Hn. destruct Hn as [Hpop Hch].
    assert (Hhead : phrase_ok (match pop with None => [nm "P"] | Some p => [nm "PP"; sym "["] ++ var_toks p ++ [sym "]"] end) = true).
    { destruct pop as [p|]; [|reflexivity].
      change ([nm "PP"; sym "["] ++ var_toks p ++ [sym "]"]) with ([nm "PP"] ++ [sym "["] ++ var_toks p ++ [sym "]"]).
      apply phrase_app; [reflexivity| |apply andb_false_intro2; reflexivity].
      apply phrase_cons_sym; [reflexivity|]. apply phrase_snoc_sym; [reflexivity|]. apply var_ok. exact Hpop. }
    unfold toks. cbn [toks_gen]. destruct (level2 ch pa) as [ivs|] eqn:El.
    + destruct (level2_source ch pa ivs El) as [v [Hv Ev]].
      assert (Hiv : forallb (fun i : nat * bool => name_ok (fst i)) ivs = true).
      { assert (Hvn : var_names_ok v = true).
        { apply in_app_or in Hv. rewrite forallb_forall in Hch, Hpa. destruct Hv as [Hv|Hv]; [apply Hch|apply Hpa]; exact Hv. }
        unfold var_names_ok in Hvn. apply andb_true_iff in Hvn. rewrite Ev in Hvn. apply Hvn. }
      apply phrase_app; [exact Hhead| |apply andb_false_intro2; reflexivity].
      apply phrase_cons_sym; [reflexivity|].
      apply phrase_app; [apply l2_ok; exact Hiv| |apply andb_false_intro2; reflexivity].
      apply phrase_cons_sym; [reflexivity|]. apply phrase_cons_sym; [reflexivity|]. apply phrase_snoc_sym; [reflexivity|].
      apply dist_ok; apply strip_names_ok; assumption.
    + apply phrase_app; [exact Hhead| |apply andb_false_intro2; reflexivity].
      apply phrase_cons_sym; [reflexivity|]. apply phrase_snoc_sym; [reflexivity|]. apply dist_ok; assumption.
  - cbn [names_ok] in Hn. rewrite forallb_forall in Hn. rewrite Forall_forall in IH. unfold toks. cbn [toks_gen].
    apply jointk_ok; [reflexivity|]. intros x Hx. apply in_map_iff in Hx. destruct Hx as [f [<- Hf]]. apply (IH f Hf). apply Hn. exact Hf.
  - cbn [names_ok] in Hn. apply andb_true_iff in Hn. destruct Hn as [He Hrs]. destruct (IH He) as [Hte Hfr].
    unfold toks. cbn [toks_gen].
    change ([nm "Sum"; sym "["] ++ vars_toks (by_name_v rs) ++ [sym "]"; sym "("] ++ ?s ++ [sym ")"]) with
      ([nm "Sum"] ++ [sym "["] ++ vars_toks (by_name_v rs) ++ [sym "]"; sym "("] ++ s ++ [sym ")"]).
    apply phrase_app; [reflexivity| |apply andb_false_intro2; reflexivity].
    apply phrase_cons_sym; [reflexivity|].
    apply phrase_app; [apply vars_ok; apply by_name_v_ok; exact Hrs| |apply andb_false_intro2; reflexivity].
    apply phrase_cons_sym; [reflexivity|]. apply phrase_cons_sym; [reflexivity|]. apply phrase_snoc_sym; [reflexivity|].
    destruct e; try exact Hte. destruct (Hfr _ _ eq_refl) as [H1 H2].
    apply phrase_cons_sym; [reflexivity|]. rewrite !app_assoc. apply phrase_snoc_sym; [reflexivity|]. rewrite <- !app_assoc.
    apply frac_body_ok; assumption.
  - cbn [names_ok] in Hn. apply andb_true_iff in Hn. destruct Hn as [H1 H2]. destruct (IHn H1) as [Tn _]. destruct (IHd H2) as [Td _].
    unfold toks. cbn [toks_gen]. fold (toks n). fold (toks d).
    apply phrase_cons_sym; [reflexivity|]. apply phrase_cons_sym; [reflexivity|].
    replace (toks n ++ [ssym "/"] ++ spaced (wrap_den false d (toks d)) ++ [sym ")"; sym ")"])
      with (((toks n ++ [ssym "/"] ++ spaced (wrap_den false d (toks d))) ++ [sym ")"]) ++ [sym ")"]) by (rewrite <- !app_assoc; reflexivity).
    apply phrase_snoc_sym; [reflexivity|]. apply phrase_snoc_sym; [reflexivity|]. apply frac_body_ok; assumption.
  - cbn [names_ok] in Hn. apply andb_true_iff in Hn. destruct Hn as [H1 H2]. injection E as <- <-. split; [apply IHn|apply IHd]; assumption.
  - reflexivity.
  - reflexivity.
  - cbn [names_ok] in Hn. apply andb_true_iff in Hn. destruct Hn as [Hd Hc]. unfold toks. cbn [toks_gen].
    change ([nm "Q"; sym "["] ++ vars_toks (by_name_v cd) ++ [sym "]"; sym "("] ++ vars_toks (by_name_v dm) ++ [sym ")"]) with
      ([nm "Q"] ++ [sym "["] ++ vars_toks (by_name_v cd) ++ [sym "]"; sym "("] ++ vars_toks (by_name_v dm) ++ [sym ")"]).
    apply phrase_app; [reflexivity| |apply andb_false_intro2; reflexivity].
    apply phrase_cons_sym; [reflexivity|].
    apply phrase_app; [apply vars_ok; apply by_name_v_ok; exact Hc| |apply andb_false_intro2; reflexivity].
    apply phrase_cons_sym; [reflexivity|]. apply phrase_cons_sym; [reflexivity|]. apply phrase_snoc_sym; [reflexivity|].
    apply vars_ok. apply by_name_v_ok. exact Hd.
  - reflexivity.
Qed.

(* T1: for every expression over the harness alphabet, the tokenizer reads the printed text back as the printer's tokens *)
Theorem tokenize_to_y0 e : names_ok e = true -> tokenize (to_y0 e) = map snd (toks e).
Proof.
  intros H. destruct (toks_ok e H) as [Hp _]. unfold phrase_ok in Hp. apply andb_true_iff in Hp. destruct Hp as [H1 H2].
  unfold to_y0, to_y0_gen. apply tokenize_render; assumption.
Qed.
