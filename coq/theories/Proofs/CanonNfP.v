(* C11: canonical forms are fixed points of the canonicalizer. [NF o e] describes the shape of a canonical form; part 1 proves
   that every expression of that shape is returned unchanged, part 2 (CanonNf2P.v) that every non-error result has that shape. *)
From Coq Require Import List Bool Arith Lia Permutation Sorted String.
From Y0 Require Import Base.ListSet Dsl.Syntax Dsl.Text Dsl.Print Dsl.Build Dsl.Canon
  Proofs.SortP Proofs.ExprP Proofs.SurgeryP Proofs.SumSimpP Proofs.LawP Proofs.OrderP.
Import ListNotations.
Open Scope list_scope.

Definition atomic (e : expr) : bool := match e with EProd _ | EOne | EZero | EErr _ | EQ _ _ => false | _ => true end.
Definition notprod (e : expr) : bool := match e with EProd _ => false | _ => true end.
Definition nofrac (e : expr) : bool := match e with EFrac _ _ => false | _ => true end.

Section Nf.
  Variable o : list var.
  Definition vlt := canon_var_lt false o.

  Lemma vlt_levels a b : vlt a b = true -> has_level o a = true /\ has_level o b = true.
  Proof.
    unfold vlt, canon_var_lt, has_level. destruct (level_of o (vn a)); [|discriminate]. destruct (level_of o (vn b)); [|discriminate]. auto.
  Qed.

  Lemma vlt_irrefl a : vlt a a = false.
  Proof.
    destruct (vlt a a) eqn:E; [|reflexivity]. destruct (vlt_levels _ _ E) as [Ha _].
    unfold vlt in E. rewrite (canon_var_lt_cmp o a a Ha Ha) in E. rewrite (lt_of_irrefl _ (cmp_ok_canon_var o)) in E. discriminate.
  Qed.

  Lemma vlt_trans a b d : vlt a b = true -> vlt b d = true -> vlt a d = true.
  Proof.
    intros E1 E2. destruct (vlt_levels _ _ E1) as [Ha Hb]. destruct (vlt_levels _ _ E2) as [_ Hd]. unfold vlt in *.
    rewrite canon_var_lt_cmp in * by assumption. eapply (lt_of_trans _ (cmp_ok_canon_var o)); eassumption.
  Qed.

  (* the shape of a canonical form *)
  Inductive NF : expr -> Prop :=
  | NF_prob pop ch pa : ch <> [] -> forallb (has_level o) ch = true -> forallb (has_level o) pa = true ->
                        sorted vlt ch -> sorted vlt pa -> NF (EProb pop ch pa)
  | NF_prod fs : 2 <= List.length fs -> Forall NF fs -> forallb atomic fs = true -> sorted expr_lt fs -> NF (EProd fs)
  | NF_sum c rs : NF c -> is_zero c = false -> rs <> [] -> upgrade_ordering rs = rs -> existsb bad_range rs = false ->
                  sum_simplify c rs = ESum c rs -> NF (ESum c rs)
  | NF_frac n d : NF n -> NF d -> nofrac n = true -> nofrac d = true -> is_one d = false -> is_zero d = false -> is_zero n = false ->
                  expr_eqb n d = false -> NF (EFrac n d)
  | NF_one : NF EOne
  | NF_zero : NF EZero.

  Lemma NF_not_err e : NF e -> is_err e = false.
  Proof. intros H. destruct H; reflexivity. Qed.

  Lemma cz_snd e : notprod e = true -> snd (cz false o e) = factors_of false (fst (cz false o e)).
  Proof. destruct e; intros H; try discriminate; reflexivity. Qed.

  Lemma canon_sorted_fixed l : forallb (has_level o) l = true -> sorted vlt l -> canon_sorted false o l = Some l.
  Proof.
    intros Hl Hs. unfold canon_sorted. change (fun v : var => match level_of o (vn v) with Some _ => true | None => false end) with (has_level o).
    rewrite Hl. f_equal. apply stable_sort_sorted_id. exact Hs.
  Qed.

  Lemma find_none_all {T} (p : T -> bool) l : (forall x, In x l -> p x = false) -> find p l = None.
  Proof. induction l as [|a t IH]; intros H; [reflexivity|]. cbn [find]. rewrite (H a (or_introl eq_refl)). apply IH. intros x Hx. apply H. right. exact Hx. Qed.

  Lemma existsb_none {T} (p : T -> bool) l : (forall x, In x l -> p x = false) -> existsb p l = false.
  Proof. induction l as [|a t IH]; intros H; [reflexivity|]. cbn [existsb]. rewrite (H a (or_introl eq_refl)). apply IH. intros x Hx. apply H. right. exact Hx. Qed.

  (* Product.safe on a list of factors none of which is a product, a constant or an error *)
  Lemma prod_safe_atomic l : forallb atomic l = true ->
    prod_safe l = match l with [] => EOne | [x] => x | _ => EProd (stable_sort expr_lt l) end.
  Proof.
    intros Hat. rewrite forallb_forall in Hat. unfold prod_safe, prod_safe_gen, first_err.
    rewrite find_none_all; [|intros x Hx; specialize (Hat x Hx); destruct x; try discriminate; reflexivity].
    rewrite filter_all; [|intros x Hx; specialize (Hat x Hx); destruct x; try discriminate; reflexivity].
    rewrite existsb_none; [|intros x Hx; specialize (Hat x Hx); destruct x; try discriminate; reflexivity].
    reflexivity.
  Qed.

  Lemma prod_safe_nf_prod fs : NF (EProd fs) -> prod_safe fs = EProd fs.
  Proof.
    intros H. inversion H as [|fs' Hlen Hall Hat Hs| | | |]; subst. rewrite (prod_safe_atomic fs Hat).
    destruct fs as [|a [|b t]]; cbn [List.length] in Hlen; try lia. f_equal. apply stable_sort_sorted_id. exact Hs.
  Qed.

  Lemma truediv_plain n d : nofrac n = true -> nofrac d = true -> is_err n = false -> is_err d = false ->
    is_zero n = false -> is_one d = false -> is_zero d = false -> truediv n d = EFrac n d.
  Proof. destruct n, d; cbn; intros; try discriminate; reflexivity. Qed.

  (* ---------------------------------------------------------------- part 1: canonical forms are fixed points *)
  Theorem nf_fixed : forall e, NF e -> fst (cz false o e) = e.
  Proof.
    induction e as [pop ch pa|es IH|e rs IH|n d IHn IHd| | |dm cd|k] using expr_ind'; intros H.
    - inversion H as [pop' ch' pa' Hne Hlc Hlp Hsc Hsp| | | | |]; subst. cbn [cz fst].
      rewrite (canon_sorted_fixed ch Hlc Hsc), (canon_sorted_fixed pa Hlp Hsp). unfold prob_raw. destruct ch; [congruence|reflexivity].
    - inversion H as [|fs Hlen Hall Hat Hs| | | |]; subst. cbn [cz fst].
      assert (Hleaves : (fix go (es0 : list expr) : list expr := match es0 with [] => [] | x :: t => snd (cz false o x) ++ go t end) es = es).
      { clear Hlen Hs H. induction IH as [|x t Hx _ IHt]; [reflexivity|].
        inversion Hall as [|? ? Hnx Hnt]; subst. cbn [forallb] in Hat. apply andb_true_iff in Hat. destruct Hat as [Hax Hat].
        rewrite (IHt Hnt Hat). rewrite cz_snd by (destruct x; try discriminate; reflexivity). rewrite (Hx Hnx).
        destruct x; try discriminate; reflexivity. }
      rewrite Hleaves. apply prod_safe_nf_prod. exact H.
    - inversion H as [| |c rs' Hc Hz Hne Hup Hbad Hsimp| | |]; subst. cbn [cz fst]. rewrite (IH Hc).
      unfold sum_safe_gen. rewrite (NF_not_err _ Hc), Hup. destruct rs as [|r0 rt]; [congruence|]. rewrite Hz, Hbad. exact Hsimp.
    - inversion H as [| | |n' d' Hn Hd Hfn Hfd H1 Hzd Hzn Hneq| |]; subst. cbn [cz fst]. rewrite (IHn Hn), (IHd Hd).
      rewrite (NF_not_err _ Hn), (NF_not_err _ Hd), H1, Hneq.
      rewrite (truediv_plain n d Hfn Hfd (NF_not_err _ Hn) (NF_not_err _ Hd) Hzn H1 Hzd). cbn [post_quotient]. rewrite Hneq. reflexivity.
    - reflexivity.
    - reflexivity.
    - inversion H.
    - inversion H.
  Qed.
End Nf.
