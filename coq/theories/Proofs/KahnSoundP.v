(* Kahn's algorithm (the model's topological_sort): a returned order enumerates the nodes once each and every
   directed edge between nodes points forward in it. *)
From Coq Require Import List Bool Arith Lia Permutation.
From Y0 Require Import Base.ListSet Graph.MixedGraph Proofs.SurgeryP.
Import ListNotations.

Definition before {T} (o : list T) (u v : T) : Prop := exists l1 l2 l3, o = l1 ++ u :: l2 ++ v :: l3.

Lemma before_cons {T} (o : list T) x u v : before o u v -> before (x :: o) u v.
Proof. intros [l1 [l2 [l3 ->]]]. exists (x :: l1), l2, l3. reflexivity. Qed.

Lemma before_head {T} (o : list T) u v : In v o -> before (u :: o) u v.
Proof. intros Hv. apply in_split in Hv. destruct Hv as [l2 [l3 ->]]. exists [], l2, l3. reflexivity. Qed.

Lemma filter_all' {T} (p : T -> bool) l : (forall x, In x l -> p x = true) -> filter p l = l.
Proof.
  induction l as [|a t IH]; intros Hp; [reflexivity|]. cbn [filter]. rewrite (Hp a (or_introl eq_refl)). f_equal.
  apply IH. intros x Hx. apply Hp. right. exact Hx.
Qed.

Section KahnSound.
  Context {A : Type} `{EqB A}.

  Lemma perm_pick (v : A) rem : NoDup rem -> In v rem -> Permutation rem (v :: filter (fun x => negb (eqb x v)) rem).
  Proof.
    induction rem as [|a t IH]; intros Hnd Hin; [destruct Hin|]. inversion Hnd as [|? ? Ha Ht]; subst. cbn [filter].
    destruct Hin as [->|Hin].
    - rewrite eqb_refl. cbn [negb]. apply perm_skip. rewrite filter_all'; [apply Permutation_refl|].
      intros x Hx. apply negb_true_iff. apply eqb_neq. intros ->. contradiction.
    - destruct (eqb a v) eqn:E; [apply eqb_true in E; subst; contradiction|]. cbn [negb].
      eapply perm_trans; [apply perm_skip; apply (IH Ht Hin)|apply perm_swap].
  Qed.

  Lemma kahn_sound fuel : forall (rem : list A) es acc o,
    NoDup rem -> kahn fuel rem es acc = Some o ->
    exists o', o = acc ++ o' /\ Permutation rem o' /\
               (forall u v, In (u, v) es -> In u rem -> In v rem -> before o' u v).
  Proof.
    induction fuel as [|f IH]; intros rem es acc o Hnd Hk; cbn [kahn] in Hk.
    - destruct rem; [|discriminate]. injection Hk as <-. exists []. rewrite app_nil_r. repeat split; [constructor|]. intros u v _ [].
    - destruct (find _ rem) as [v|] eqn:Ef.
      + apply find_some in Ef. destruct Ef as [Hv Hno]. apply negb_true_iff in Hno.
        apply IH in Hk; [|apply NoDup_filter; exact Hnd]. destruct Hk as [o'' [-> [Hp Hed]]].
        exists (v :: o''). rewrite <- app_assoc. split; [reflexivity|]. split.
        * eapply perm_trans; [apply (perm_pick v rem Hnd Hv)|]. apply perm_skip. exact Hp.
        * intros u w Huw Hu Hw.
          assert (Hwv : w <> v).
          { intros ->. assert (Ht : existsb (fun e : A * A => eqb (snd e) v) es = true).
            { apply existsb_exists. exists (u, v). split; [exact Huw|apply eqb_refl]. } congruence. }
          assert (Hw' : In w (filter (fun x => negb (eqb x v)) rem)).
          { apply filter_In. split; [exact Hw|]. apply negb_true_iff. apply eqb_neq. exact Hwv. }
          destruct (eq_dec_of u v) as [->|Huv].
          -- apply before_head. eapply Permutation_in; [exact Hp|exact Hw'].
          -- apply before_cons. apply Hed; [|apply filter_In; split; [exact Hu|apply negb_true_iff; apply eqb_neq; exact Huv]|exact Hw'].
             apply filter_In. split; [exact Huw|]. apply negb_true_iff. apply eqb_neq. exact Huv.
      + destruct rem; [|discriminate]. injection Hk as <-. exists []. rewrite app_nil_r. repeat split; [constructor|]. intros u v _ [].
  Qed.

  Theorem topological_sort_sound (g : mg A) o :
    NoDup (nodes g) -> topological_sort g = Some o ->
    Permutation (nodes g) o /\ forall u v, In (u, v) (dir g) -> In u (nodes g) -> In v (nodes g) -> before o u v.
  Proof.
    intros Hnd Ht. unfold topological_sort in Ht. apply kahn_sound in Ht; [|exact Hnd].
    destruct Ht as [o' [-> [Hp Hed]]]. cbn [app]. auto.
  Qed.
End KahnSound.
