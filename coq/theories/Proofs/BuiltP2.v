(* C12: the conditional term builder P(c1, .., ck | p1, .., pm) on well-formed, pairwise distinct variables gives a well-formed term. *)
From Coq Require Import List Bool Arith Lia Permutation.
From Y0 Require Import Base.ListSet Dsl.Syntax Dsl.Text Dsl.Print Dsl.Build Dsl.Canon Dsl.Parse
  Proofs.SortP Proofs.ExprP Proofs.SurgeryP Proofs.SumSimpP Proofs.OrderP Proofs.CanonNfP Proofs.CanonNf3P Proofs.TokenizeP Proofs.ParseP Proofs.EvalP Proofs.EvalSemP.
Import ListNotations.
Open Scope list_scope.

Lemma fixed_sorted_nodup l : NoDup l -> fixed (sorted_variables l).
Proof.
  intros Hn. apply fixed_iff. split.
  - unfold sorted_variables. apply stable_sort_sorted; [exact var_sort_lt_irrefl|exact var_sort_lt_trans].
  - unfold sorted_variables. eapply Permutation_NoDup; [apply stable_sort_perm|exact Hn].
Qed.

Lemma NoDup_upgrade_app pre c : NoDup (pre ++ c) -> NoDup (upgrade_ordering pre ++ c).
Proof.
  intros H. assert (Hp : Permutation (pre ++ c) (upgrade_ordering pre ++ c)).
  { apply Permutation_app_tail. rewrite <- (dedup_NoDup_id pre) at 1 by (eapply NoDup_app_l; exact H). apply upgrade_perm. }
  eapply Permutation_NoDup; [exact Hp|exact H].
Qed.

Lemma NoDup_app_upgrade p post : NoDup (p ++ post) -> NoDup (p ++ upgrade_ordering post).
Proof.
  intros H. assert (Hp : Permutation (p ++ post) (p ++ upgrade_ordering post)).
  { apply Permutation_app_head. rewrite <- (dedup_NoDup_id post) at 1 by (eapply NoDup_app_r; exact H). apply upgrade_perm. }
  eapply Permutation_NoDup; [exact Hp|exact H].
Qed.

Theorem wf_prob_conditional pop pre c p post :
  match pop with Some q => wfvar q = true | None => True end ->
  forallb wfvar (pre ++ c) = true -> forallb wfvar (p ++ post) = true ->
  NoDup (pre ++ c) -> NoDup (p ++ post) -> c <> [] ->
  wf_sem (prob_safe pop pre (Some (c, p)) post None) = true.
Proof.
  intros Hpop Hch Hpa Nch Npa Hc. unfold prob_safe, dist_safe. cbn [fst snd]. unfold prob_raw.
  set (ch := sorted_variables (upgrade_ordering pre ++ c)). set (pa := sorted_variables (p ++ upgrade_ordering post)).
  assert (Fch : fixed ch) by (apply fixed_sorted_nodup; apply NoDup_upgrade_app; exact Nch).
  assert (Fpa : fixed pa) by (apply fixed_sorted_nodup; apply NoDup_app_upgrade; exact Npa).
  assert (Ich : forall v, In v ch -> In v (pre ++ c)).
  { intros v Hv. unfold ch, sorted_variables in Hv. apply (Permutation_in _ (Permutation_sym (stable_sort_perm _ _))) in Hv.
    apply in_app_or in Hv. apply in_or_app. destruct Hv as [Hv|Hv]; [left; apply In_upgrade; exact Hv|right; exact Hv]. }
  assert (Ipa : forall v, In v pa -> In v (p ++ post)).
  { intros v Hv. unfold pa, sorted_variables in Hv. apply (Permutation_in _ (Permutation_sym (stable_sort_perm _ _))) in Hv.
    apply in_app_or in Hv. apply in_or_app. destruct Hv as [Hv|Hv]; [left; exact Hv|right; apply In_upgrade; exact Hv]. }
  destruct ch as [|c0 ct] eqn:Ech.
  - exfalso. destruct c as [|x xt]; [congruence|].
    assert (Hin : In x (sorted_variables (upgrade_ordering pre ++ x :: xt))).
    { unfold sorted_variables. eapply Permutation_in; [apply stable_sort_perm|]. apply in_or_app. right. left. reflexivity. }
    fold ch in Hin. rewrite Ech in Hin. destruct Hin.
  - rewrite <- Ech in *. cbn [wf_sem]. rewrite forallb_forall in Hch, Hpa. repeat (apply andb_true_iff; split).
    + destruct pop; [exact Hpop|reflexivity].
    + apply forallb_forall. intros v Hv. apply Hch. apply Ich. exact Hv.
    + apply forallb_forall. intros v Hv. apply Hpa. apply Ipa. exact Hv.
    + rewrite Ech. reflexivity.
    + unfold fixed in Fch. rewrite Fch. apply eqb_refl.
    + unfold fixed in Fpa. rewrite Fpa. apply eqb_refl.
Qed.

