(* C17: on every valid input Tian & Pearl's IDENTIFY (as implemented) returns an expression or reports failure - never another error - within
   |T| + 1 recursion steps. Valid: C and T listed in the order, C inside T, G_T one district, G_C one district, Q[T] a probability term or a
   sum / product / fraction. *)
From Coq Require Import List Bool Arith Lia Relations Permutation.
From Y0 Require Import Base.ListSet Graph.Closure Graph.MixedGraph Dsl.Syntax Dsl.Text Dsl.Build Alg.Id Alg.Tian
  Proofs.ClosureP Proofs.SurgeryP Proofs.DistrictsP Proofs.SortP Proofs.CanonNf3P Proofs.IdTotalP Proofs.TianP.
Import ListNotations.

Definition good (q : expr) : bool := is_spf q || is_prob q.

Lemma good_not_err q : good q = true -> is_err q = false /\ is_zero q = false /\ is_one q = false.
Proof. destruct q; cbn; intros H; try discriminate; auto. Qed.

Lemma ranges_ok l : existsb bad_range (upgrade_ordering (Vs l)) = false.
Proof.
  destruct (existsb bad_range (upgrade_ordering (Vs l))) eqn:E; [|reflexivity]. apply existsb_exists in E. destruct E as [v [Hv Hb]].
  apply (proj1 (In_upgrade _ _)) in Hv. unfold Vs in Hv. apply in_map_iff in Hv. destruct Hv as [n [<- _]]. discriminate.
Qed.

(* summing a good expression over plain variables gives a good expression *)
Lemma sum_safe_good q l : good q = true -> good (sum_safe q (Vs l) false) = true.
Proof.
  intros Hq. destruct (good_not_err q Hq) as [He [Hz _]]. unfold sum_safe, sum_safe_gen. rewrite He.
  destruct (upgrade_ordering (Vs l)) as [|r rs] eqn:Eu; [exact Hq|]. rewrite Hz. rewrite <- Eu, ranges_ok. reflexivity.
Qed.

Lemma mk_frac_good a b : good a = true -> good b = true -> good (mk_frac a b) = true.
Proof.
  intros Ha Hb. destruct (good_not_err a Ha) as [Ea _]. destruct (good_not_err b Hb) as [Eb [Zb _]].
  unfold mk_frac, first_err. cbn [find]. rewrite Ea, Eb, Zb. reflexivity.
Qed.

Lemma prod_safe_good es : es <> [] -> (forall e, In e es -> good e = true) -> good (prod_safe es) = true.
Proof.
  intros Hne Hall. unfold prod_safe, prod_safe_gen, first_err.
  assert (Hf : find is_err es = None).
  { destruct (find is_err es) eqn:E; [|reflexivity]. apply find_some in E. destruct E as [Hin He]. destruct (good_not_err e (Hall e Hin)) as [H _]. congruence. }
  rewrite Hf.
  assert (Hfil : filter (fun e => negb (is_one e)) es = es).
  { clear Hne Hf. induction es as [|a t IH]; [reflexivity|]. cbn [filter]. destruct (good_not_err a (Hall a (or_introl eq_refl))) as [_ [_ H1]]. rewrite H1. cbn [negb].
    f_equal. apply IH. intros e He. apply Hall. right. exact He. }
  rewrite Hfil.
  assert (Hz : existsb is_zero es = false).
  { destruct (existsb is_zero es) eqn:E; [|reflexivity]. apply existsb_exists in E. destruct E as [e [Hin He]]. destruct (good_not_err e (Hall e Hin)) as [_ [H _]]. congruence. }
  rewrite Hz. destruct es as [|x [|y t]]; [congruence|apply Hall; left; reflexivity|reflexivity].
Qed.

Lemma index_nat_In v l : In v l -> exists i, index_nat v l = Some i.
Proof.
  induction l as [|x t IH]; intros H; [destruct H|]. cbn [index_nat]. destruct (Nat.eqb x v) eqn:E; [eauto|].
  destruct H as [->|H]; [rewrite Nat.eqb_refl in E; discriminate|]. destruct (IH H) as [i Hi]. rewrite Hi. cbn [option_map]. eauto.
Qed.

Lemma q_low_good v q topo : good q = true -> In v topo -> good (q_low v q topo) = true.
Proof. intros Hq Hv. unfold q_low. destruct (index_nat_In v topo Hv) as [i ->]. apply sum_safe_good. exact Hq. Qed.

Lemma index_nat_nth v l j : index_nat v l = Some (S j) -> In (nth j l 0) l.
Proof.
  revert j. induction l as [|x t IH]; intros j H; [discriminate|]. cbn [index_nat] in H. destruct (Nat.eqb x v); [discriminate|].
  destruct (index_nat v t) as [k|] eqn:Ek; [|discriminate]. cbn in H. inversion H; subst. destruct j as [|j]; [left; reflexivity|].
  right. cbn [nth]. apply IH. reflexivity.
Qed.

Lemma c_factor_marginalizing_good district q topo :
  good q = true -> district <> [] -> incl district topo -> good (c_factor_marginalizing district q topo) = true.
Proof.
  intros Hq Hne Hin. unfold c_factor_marginalizing. apply prod_safe_good.
  - destruct district; [congruence|discriminate].
  - intros e He. apply in_map_iff in He. destruct He as [v [<- Hv]]. pose proof (Hin v Hv) as Hvt. destruct (index_nat_In v topo Hvt) as [i Ei]. rewrite Ei.
    destruct i as [|j]; [apply q_low_good; assumption|]. apply mk_frac_good; [apply q_low_good; assumption|]. apply q_low_good; [exact Hq|]. apply (index_nat_nth v topo j Ei).
Qed.

Lemma c_factor_conditioning_good district pop ch pa topo :
  district <> [] -> incl district topo -> good (c_factor_conditioning district (EProb pop ch pa) topo) = true.
Proof.
  intros Hne Hin. unfold c_factor_conditioning.
  destruct district as [|d0 dt] eqn:Ed; [congruence|]. rewrite <- Ed in *. assert (Htne : topo <> []) by (intros ->; apply (Hin d0); rewrite Ed; left; reflexivity).
  replace (is_nil district) with false by (rewrite Ed; reflexivity). replace (is_nil topo) with false by (destruct topo; [congruence|reflexivity]). cbn [orb].
  replace (subset district topo) with true by (symmetry; apply subset_incl; exact Hin). cbn [negb].
  apply prod_safe_good; [rewrite Ed; discriminate|]. intros e He. apply in_map_iff in He. destruct He as [v [<- Hv]].
  destruct (index_nat_In v topo (Hin v Hv)) as [i ->]. reflexivity.
Qed.

Lemma compute_c_factor_good district sub_vars q topo :
  good q = true -> district <> [] -> incl district (filter (fun v => mem v sub_vars) topo) -> good (compute_c_factor district sub_vars q topo) = true.
Proof.
  intros Hq Hne Hin. unfold compute_c_factor. destruct (is_spf q) eqn:Es; [apply c_factor_marginalizing_good; assumption|].
  unfold good in Hq. rewrite Es in Hq. cbn [orb] in Hq. rewrite Hq. destruct q; try discriminate. apply c_factor_conditioning_good; assumption.
Qed.

(* ------------------------------------------------------------ bidirected connectivity in induced subgraphs *)
Lemma bconn_subgraph_mono (g : mg nat) S S' u v : incl S S' -> bconn (subgraph g S) u v -> bconn (subgraph g S') u v.
Proof.
  intros Hi H. unfold bconn, reachable in *. induction H as [x y Hxy| |x y z _ IH1 _ IH2]; [|apply rt_refl|eapply rt_trans; eassumption].
  apply rt_step. apply In_sym in Hxy. apply In_sym. destruct Hxy as [Hxy|Hxy]; apply subgraph_bid in Hxy; destruct Hxy as [He [Hx Hy]]; [left|right]; apply subgraph_bid; auto.
Qed.

Lemma bconn_stays (g : mg nat) S D u v : In D (districts (subgraph g S)) -> In u D -> bconn (subgraph g S) u v -> bconn (subgraph g D) u v.
Proof.
  intros HD Hu H. unfold bconn, reachable in H. apply clos_rt_rt1n in H. induction H as [x|x y z Hxy _ IH]; [apply rt_refl|].
  assert (Hy : In y D) by (apply (districts_spec (subgraph g S) D x y HD Hu); apply rt_step; exact Hxy).
  eapply rt_trans; [|apply IH; exact Hy]. apply rt_step. apply In_sym in Hxy. apply In_sym.
  destruct Hxy as [Hxy|Hxy]; apply subgraph_bid in Hxy; destruct Hxy as [He _]; [left|right]; apply subgraph_bid; auto.
Qed.

Lemma districts_single (g : mg nat) S D : In D (districts (subgraph g S)) -> length (districts (subgraph g D)) <= 1.
Proof.
  intros HD. destruct (districts (subgraph g D)) as [|D1 [|D2 rest]] eqn:EL; cbn [length]; try lia. exfalso.
  pose proof (districts_disjoint (subgraph g D)) as Hdis. rewrite EL in Hdis. inversion Hdis as [|? ? Hf _]; subst. inversion Hf as [|? ? H12 _]; subst.
  pose proof (districts_nonempty (subgraph g D)) as Hne. rewrite EL in Hne. inversion Hne as [|? ? [x Hx] Hne']; subst. inversion Hne' as [|? ? [y Hy] _]; subst.
  assert (H1 : In D1 (districts (subgraph g D))) by (rewrite EL; left; reflexivity).
  assert (H2 : In D2 (districts (subgraph g D))) by (rewrite EL; right; left; reflexivity).
  assert (HxD : In x D) by (apply (subgraph_nodes g D x); apply (districts_within_nodes (subgraph g D) D1 (wf_from_edges _ _ _) H1); exact Hx).
  assert (HyD : In y D) by (apply (subgraph_nodes g D y); apply (districts_within_nodes (subgraph g D) D2 (wf_from_edges _ _ _) H2); exact Hy).
  assert (Hc : bconn (subgraph g D) x y).
  { apply (bconn_stays g S D x y HD HxD). apply (districts_spec (subgraph g S) D x y HD HxD). exact HyD. }
  apply (H12 y); [|exact Hy]. apply (districts_spec (subgraph g D) D1 x y H1 Hx). exact Hc.
Qed.

Lemma district_containing (g : mg nat) A C : C <> [] -> incl C A -> length (districts (subgraph g C)) = 1 ->
  exists D, In D (districts (subgraph g A)) /\ subset C D = true.
Proof.
  intros Hne Hin H1. destruct C as [|c0 ct] eqn:EC; [congruence|]. rewrite <- EC in *.
  assert (Hc0 : In c0 C) by (rewrite EC; left; reflexivity).
  destruct (districts_cover (subgraph g A) c0 (proj2 (subgraph_nodes g A c0) (Hin c0 Hc0))) as [D [HD Hc0D]]. exists D. split; [exact HD|].
  apply subset_incl. intros c Hc. apply (districts_spec (subgraph g A) D c0 c HD Hc0D). apply (bconn_subgraph_mono g C A c0 c Hin).
  destruct (districts (subgraph g C)) as [|DC [|? ?]] eqn:EL; cbn [length] in H1; try lia.
  destruct (districts_cover (subgraph g C) c0 (proj2 (subgraph_nodes g C c0) Hc0)) as [D0 [HD0 H0]].
  destruct (districts_cover (subgraph g C) c (proj2 (subgraph_nodes g C c) Hc)) as [D1 [HD1 H1']].
  rewrite EL in HD0, HD1. destruct HD0 as [<-|[]]. destruct HD1 as [<-|[]].
  apply (districts_spec (subgraph g C) DC c0 c); [rewrite EL; left; reflexivity|exact H0|exact H1'].
Qed.

Lemma length_lt_of_missing (l l' : list nat) x : NoDup l -> incl l l' -> In x l' -> ~ In x l -> length l < length l'.
Proof.
  intros Hn Hi Hx Hnx. assert (H : length (x :: l) <= length l').
  { apply NoDup_incl_length; [constructor; assumption|]. intros y [<-|Hy]; [exact Hx|apply Hi; exact Hy]. }
  cbn [length] in H. lia.
Qed.

Lemma forallb_false_witness {T} (p : T -> bool) l : forallb p l = false -> exists x, In x l /\ p x = false.
Proof.
  induction l as [|a t IH]; cbn [forallb]; intros H; [discriminate|]. destruct (p a) eqn:E; [|exists a; split; [left; reflexivity|exact E]].
  cbn [andb] in H. destruct (IH H) as [x [Hx Hp]]. exists x. split; [right; exact Hx|exact Hp].
Qed.

Definition tian_valid (g : mg nat) (C T : list nat) (q : expr) (topo : list nat) : Prop :=
  C <> [] /\ incl C T /\ incl T topo /\ length (districts (subgraph g T)) <= 1 /\ length (districts (subgraph g C)) = 1 /\ good q = true.

Lemma tok_of_good e : good e = true -> match e with EErr k => TExc k | e' => TOk e' end = TOk e.
Proof. destruct e; cbn; intros H; try discriminate; reflexivity. Qed.

Theorem tian_total : forall fuel g C T q topo,
  length T < fuel -> tian_valid g C T q topo ->
  identify_district_variables fuel g C T q topo = TFail \/ exists e, identify_district_variables fuel g C T q topo = TOk e.
Proof.
  induction fuel as [|f IH]; intros g C T q topo Hlen [Hne [HCT [HTt [H1T [H1C Hq]]]]]; [lia|].
  cbn [identify_district_variables].
  replace (subset C T) with true by (symmetry; apply subset_incl; exact HCT).
  replace (subset T topo) with true by (symmetry; apply subset_incl; exact HTt). cbn [negb].
  replace (Nat.ltb 1 (length (districts (subgraph g T)))) with false by (symmetry; apply Nat.ltb_ge; exact H1T).
  unfold good in Hq. rewrite Hq. cbn [negb]. fold (good q) in Hq.
  set (A := ancestors_inclusive (subgraph g T) C). set (oA := filter (fun v => mem v A) topo).
  assert (HCA : incl C A) by (intros c Hc; unfold A, ancestors_inclusive; apply reach_incl; exact Hc).
  assert (HAT : incl A T).
  { intros a Ha. apply (subgraph_nodes g T a). apply (ancestors_inclusive_nodes (subgraph g T) C (wf_from_edges _ _ _)); [|exact Ha].
    intros c Hc. apply subgraph_nodes. apply HCT. exact Hc. }
  destruct (set_eqb A C) eqn:EAC.
  { assert (Hg : good (compute_ancestral_set_q_value A T q topo) = true) by (unfold compute_ancestral_set_q_value; apply sum_safe_good; exact Hq).
    destruct (compute_ancestral_set_q_value A T q topo); try discriminate Hg; right; eexists; reflexivity. }
  destruct (set_eqb A T) eqn:EAT; [left; reflexivity|].
  replace (subset C A) with true by (symmetry; apply subset_incl; exact HCA).
  replace (subset A T) with true by (symmetry; apply subset_incl; exact HAT). cbn [andb].
  assert (HCo : incl C oA).
  { intros c Hc. apply filter_In. split; [apply HTt; apply HCT; exact Hc|apply mem_In; apply HCA; exact Hc]. }
  destruct (district_containing g oA C Hne HCo H1C) as [D0 [HD0 HsD0]].
  destruct (find (fun D => subset C D) (districts (subgraph g oA))) as [T'|] eqn:Ef.
  2:{ pose proof (find_none _ _ Ef D0 HD0) as Hc. cbn beta in Hc. congruence. }
  apply find_some in Ef. destruct Ef as [HT' HsT']. apply subset_incl in HsT'.
  assert (HT'o : incl T' oA) by (apply (district_of_subgraph_incl g oA T' HT')).
  assert (HT'A : incl T' A) by (intros x Hx; apply HT'o in Hx; apply filter_In in Hx; destruct Hx as [_ Hm]; apply mem_In; exact Hm).
  assert (HT'ne : T' <> []) by (intros ->; destruct C as [|c ?]; [congruence|destruct (HsT' c (or_introl eq_refl))]).
  assert (HoAne : oA <> []) by (intros E; destruct C as [|c ?]; [congruence|]; pose proof (HCo c (or_introl eq_refl)) as Hc; rewrite E in Hc; destruct Hc).
  (* Q[A] *)
  set (qA := if is_spf q then compute_ancestral_set_q_value A T q topo
             else match q with
                  | EProb pop _ pa => prob_safe pop [] (Some (upgrade_ordering (Vs oA), upgrade_ordering pa)) [] None
                  | _ => EErr TypeError
                  end).
  assert (HqA : good qA = true).
  { unfold qA. destruct (is_spf q) eqn:Es; [unfold compute_ancestral_set_q_value; apply sum_safe_good; exact Hq|].
    unfold good in Hq. rewrite Es in Hq. cbn [orb] in Hq. destruct q; try discriminate.
    unfold prob_safe, dist_safe. cbn [fst snd]. unfold prob_raw.
    destruct (sorted_variables (upgrade_ordering [] ++ upgrade_ordering (Vs oA))) as [|x t] eqn:Esv; [|reflexivity]. exfalso.
    assert (Hin : forall v, In v (upgrade_ordering (Vs oA)) -> False).
    { intros v Hv. assert (Hv' : In v (sorted_variables (upgrade_ordering [] ++ upgrade_ordering (Vs oA)))) by (unfold sorted_variables; eapply Permutation_in; [apply stable_sort_perm|apply in_or_app; right; exact Hv]).
      rewrite Esv in Hv'. destruct Hv'. }
    destruct oA as [|o ot]; [congruence|]. apply (Hin (V o)). apply In_upgrade. left. reflexivity. }
  assert (Hcf : good (compute_c_factor T' A qA topo) = true) by (apply compute_c_factor_good; [exact HqA|exact HT'ne|exact HT'o]).
  assert (Hvalid : forall q', good q' = true -> tian_valid g C T' q' topo).
  { intros q' Hq'. repeat split; auto.
    - intros x Hx. apply HTt. apply HAT. apply HT'A. exact Hx.
    - apply (districts_single g oA T' HT'). }
  assert (Hlt : length T' < f).
  { assert (Hx : exists x, In x T /\ ~ In x A).
    { unfold set_eqb in EAT. replace (subset A T) with true in EAT by (symmetry; apply subset_incl; exact HAT). cbn [andb] in EAT.
      unfold subset in EAT. apply forallb_false_witness in EAT. destruct EAT as [x [Hx Hm]]. exists x. split; [exact Hx|apply mem_false; exact Hm]. }
    destruct Hx as [x [HxT HxA]].
    assert (Hnd : NoDup T').
    { pose proof (districts_classes (subgraph g oA)) as _. unfold districts in HT'. clear - HT'.
      assert (Haux : forall todo acc D, In D (districts_aux (subgraph g oA) todo acc) -> (forall D', In D' acc -> NoDup D') -> NoDup D).
      { induction todo as [|v t IHt]; intros acc D HD Hacc; cbn [districts_aux] in HD; [apply Hacc; exact HD|].
        destruct (existsb (mem v) acc); [apply (IHt acc D HD Hacc)|]. apply (IHt _ D HD). intros D' HD'. apply in_app_or in HD'.
        destruct HD' as [HD'|[<-|[]]]; [apply Hacc; exact HD'|unfold district_of; apply NoDup_reach]. }
      apply (Haux _ [] T' HT'). intros ? []. }
    assert (Hl : length T' < length T) by (apply (length_lt_of_missing T' T x Hnd); [intros y Hy; apply HAT; apply HT'A; exact Hy|exact HxT|intros Hin; apply HxA; apply HT'A; exact Hin]).
    lia. }
  fold oA. fold qA. destruct (compute_c_factor T' A qA topo) eqn:Ecf; try discriminate Hcf; apply IH; try exact Hlt; apply Hvalid; exact Hcf.
Qed.
