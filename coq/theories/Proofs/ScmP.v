(* Functional SCMs: induction along a topological order, uniqueness and existence of the solution of every submodel. *)
From Coq Require Import List Bool Arith Lia.
From Y0 Require Import Base.ListSet Graph.Closure Graph.MixedGraph Proofs.ClosureP Proofs.SurgeryP Sem.Scm.
Import ListNotations.

Lemma index_of_In (v : nat) l : In v l -> exists i, index_of v l = Some i.
Proof.
  induction l as [|x t IH]; intros Hin; [destruct Hin|]. cbn [index_of]. destruct (eqb x v) eqn:E; [exists 0; reflexivity|].
  destruct Hin as [->|Hin]; [rewrite eqb_refl in E; discriminate|]. destruct (IH Hin) as [i Hi]. rewrite Hi. exists (S i). reflexivity.
Qed.

(* induction over a graph that has a topological order: a statement that passes from the parents of a node to the node holds of every node *)
Lemma topo_ind (g : mg nat) order (P : nat -> Prop) :
  is_topo g order = true ->
  (forall v, In v (nodes g) -> (forall p, In p (parents g v) -> P p) -> P v) ->
  forall v, In v (nodes g) -> P v.
Proof.
  intros Ht Hstep. apply is_topo_spec in Ht. destruct Ht as [_ [Heq Hfw]].
  assert (Hn : forall n v i, index_of v order = Some i -> i < n -> In v (nodes g) -> P v).
  { induction n as [|n IH]; intros v i Hi Hlt Hv; [lia|]. apply Hstep; [exact Hv|]. intros p Hp. apply In_parents in Hp.
    destruct (Hfw _ _ Hp) as [a [b [Ea [Eb Hab]]]]. rewrite Eb in Hi. inversion Hi; subst. apply (IH p a Ea); [lia|].
    apply Heq. clear - Ea. revert a Ea. induction order as [|x t IHt]; intros a Ea; [discriminate|]. cbn [index_of] in Ea.
    destruct (eqb x p) eqn:E; [left; apply (proj1 (eqb_eq _ _)); exact E|]. right. destruct (index_of p t) as [k|]; [|discriminate]. apply (IHt k). reflexivity. }
  intros v Hv. destruct (index_of_In v order (proj2 (Heq v) Hv)) as [i Hi]. apply (Hn (S i) v i Hi); [lia|exact Hv].
Qed.

Section ScmP.
  Variable g : mg nat.
  Context {D : Type}.
  Variable U : Type.
  Variable f : nat -> (nat -> D) -> U -> D.
  Variable rho : nat * bool -> D.
  Hypothesis f_local : local g U f.
  Variable order : list nat.
  Hypothesis order_ok : is_topo g order = true.

  (* two solutions of two submodels agree on every node all of whose ancestors (inclusive) get the same treatment in both *)
  Lemma solutions_agree (A : nat -> Prop) ivs ivs' u x x' :
    solution g U f rho ivs u x -> solution g U f rho ivs' u x' ->
    (forall v, In v (nodes g) -> A v -> do_value rho ivs v = do_value rho ivs' v) ->
    (forall v p, In v (nodes g) -> A v -> do_value rho ivs v = None -> In p (parents g v) -> A p) ->
    forall v, In v (nodes g) -> A v -> x v = x' v.
  Proof.
    intros Hs Hs' Hsame Hclosed. apply (topo_ind g order (fun v => A v -> x v = x' v) order_ok).
    intros v Hv IH Av. rewrite (Hs v Hv), (Hs' v Hv), <- (Hsame v Hv Av). destruct (do_value rho ivs v) eqn:E; [reflexivity|].
    apply f_local. intros p Hp. apply IH; [exact Hp|]. apply (Hclosed v p Hv Av E Hp).
  Qed.

  Theorem solution_unique ivs u x x' :
    solution g U f rho ivs u x -> solution g U f rho ivs u x' -> forall v, In v (nodes g) -> x v = x' v.
  Proof. intros Hs Hs' v Hv. apply (solutions_agree (fun _ => True) ivs ivs u x x' Hs Hs'); auto. Qed.

  (* existence: solving along the order *)
  Lemma solve_app l1 l2 ivs u :
    solve U f rho (l1 ++ l2) ivs u =
    fold_left (fun x v => upd x v (match do_value rho ivs v with Some b => b | None => f v x u end)) l2 (solve U f rho l1 ivs u).
  Proof. unfold solve. apply fold_left_app. Qed.

  Lemma fold_keeps ivs u l : forall x w, ~ In w l ->
    fold_left (fun x v => upd x v (match do_value rho ivs v with Some b => b | None => f v x u end)) l x w = x w.
  Proof.
    induction l as [|a t IH]; intros x w Hw; [reflexivity|]. cbn [fold_left]. rewrite IH by (intros Hin; apply Hw; right; exact Hin).
    unfold upd. destruct (Nat.eqb w a) eqn:E; [apply Nat.eqb_eq in E; subst; exfalso; apply Hw; left; reflexivity|reflexivity].
  Qed.

  Theorem solution_exists ivs u : solution g U f rho ivs u (solve U f rho order ivs u).
  Proof.
    pose proof (proj1 (is_topo_spec g order) order_ok) as [Hnd [Heq Hfw]].
    intros v Hv. apply Heq in Hv. destruct (in_split _ _ Hv) as [l1 [l2 E]].
    assert (Hnd' : NoDup (l1 ++ v :: l2)) by (rewrite <- E; exact Hnd). apply NoDup_remove_2 in Hnd'.
    assert (H1 : ~ In v l1) by (intros Hin; apply Hnd'; apply in_or_app; left; exact Hin).
    assert (H2 : ~ In v l2) by (intros Hin; apply Hnd'; apply in_or_app; right; exact Hin).
    set (step := fun x v => upd x v (match do_value rho ivs v with Some b => b | None => f v x u end)).
    set (x1 := solve U f rho l1 ivs u).
    assert (Ev : solve U f rho order ivs u = fold_left step l2 (step x1 v)).
    { rewrite E. rewrite solve_app. reflexivity. }
    assert (Hval : solve U f rho order ivs u v = match do_value rho ivs v with Some b => b | None => f v x1 u end).
    { rewrite Ev. unfold step. rewrite fold_keeps by exact H2. unfold upd. rewrite Nat.eqb_refl. reflexivity. }
    rewrite Hval. destruct (do_value rho ivs v) eqn:Ed; [reflexivity|]. apply f_local. intros p Hp. apply In_parents in Hp.
    (* a parent of v stands before v in the order: its value is already final in x1 *)
    assert (Hp1 : In p l1).
    { destruct (Hfw _ _ Hp) as [a [b [Ea [Eb Hab]]]]. rewrite E in Ea, Eb. clear - Ea Eb Hab H1.
      revert a b Ea Eb Hab. induction l1 as [|y t IHt]; intros a b Ea Eb Hab.
      - cbn [app index_of] in Eb. rewrite eqb_refl in Eb. inversion Eb; subst. lia.
      - cbn [app index_of] in Ea, Eb. destruct (eqb y p) eqn:Ep; [left; apply (proj1 (eqb_eq _ _)); exact Ep|]. right.
        destruct (eqb y v) eqn:Evv; [apply (proj1 (eqb_eq _ _)) in Evv; subst; exfalso; apply H1; left; reflexivity|].
        destruct (index_of p (t ++ v :: l2)) as [a'|] eqn:Ea'; [|discriminate]. destruct (index_of v (t ++ v :: l2)) as [b'|] eqn:Eb'; [|discriminate].
        cbn in Ea, Eb. inversion Ea; inversion Eb; subst. apply (IHt (fun Hin => H1 (or_intror Hin)) a' b' eq_refl eq_refl). lia. }
    assert (Hp2 : ~ In p l2).
    { intros Hin. destruct (in_split _ _ Hp1) as [m1 [m2 Em]]. rewrite Em in E. rewrite E in Hnd. rewrite <- app_assoc in Hnd. cbn [app] in Hnd.
      apply NoDup_remove_2 in Hnd. apply Hnd. apply in_or_app. right. apply in_or_app. right. right. exact Hin. }
    rewrite Ev. unfold step. rewrite fold_keeps by exact Hp2. unfold upd. destruct (Nat.eqb p v) eqn:Epv; [apply Nat.eqb_eq in Epv; subst; contradiction|reflexivity].
  Qed.
End ScmP.
