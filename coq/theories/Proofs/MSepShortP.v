(* C04, converse of MSepPathP: every active WALK of a directed graph without 2-cycles contains an active simple PATH in the
   textbook sense (colliders are ancestors of the conditioning set), and that path is among those enumerated by
   [all_simple_paths_und]. Together: m-connection = the textbook path specification [d_connected_spec]. *)
From Coq Require Import List Bool Arith Lia Relations.
From Y0 Require Import Base.ListSet Graph.Closure Graph.Paths Graph.MixedGraph Graph.DSep Graph.MSep
  Proofs.ClosureP Proofs.SurgeryP Proofs.SigmaP Proofs.MSepP Proofs.MSepLatP Proofs.MSepPathP.
Import ListNotations.

(* ---- triples_ok over appended lists ---- *)
Section Triples.
  Variables (es : list (nat * nat)) (anC C : list nat).
  Notation T := (triples_ok es anC C).
  Definition tri (x y z : nat) : bool := if is_collider es x y z then mem y anC else negb (mem y C).

  Lemma T_cons3 x y z t : T (x :: y :: z :: t) = tri x y z && T (y :: z :: t).
  Proof. reflexivity. Qed.

  Lemma T_app2 : forall p u v q, T (p ++ u :: v :: q) = T (p ++ [u; v]) && T (u :: v :: q).
  Proof.
    induction p as [|w p IH]; intros u v q; [reflexivity|].
    destruct p as [|y [|z p]].
    - cbn [app]. rewrite !T_cons3. cbn [triples_ok]. rewrite andb_true_r. reflexivity.
    - specialize (IH u v q). cbn [app] in *. rewrite (T_cons3 w y u), (T_cons3 w y u), IH, andb_assoc. reflexivity.
    - specialize (IH u v q). cbn [app] in *. rewrite !T_cons3 in *. rewrite IH, !andb_assoc. reflexivity.
  Qed.

  Lemma T_suffix : forall p q, T (p ++ q) = true -> T q = true.
  Proof.
    induction p as [|w p IH]; intros q Hq; [exact Hq|]. apply IH. cbn [app] in Hq.
    destruct (p ++ q) as [|y [|z t]]; try reflexivity. rewrite T_cons3 in Hq. apply andb_true_iff in Hq. tauto.
  Qed.

  Lemma T_prefix : forall p q, T (p ++ q) = true -> T p = true.
  Proof.
    induction p as [|w p IH]; intros q Hq; [reflexivity|].
    destruct p as [|y [|z p]]; try reflexivity.
    cbn [app] in *. rewrite T_cons3 in *. apply andb_true_iff in Hq. destruct Hq as [H1 H2].
    rewrite H1. apply (IH q). exact H2.
  Qed.
End Triples.

Section Chain.
  Context {A : Type} `{EqB A}.
  Variable adj : A -> list A.
  Notation chain := (chainA adj).

  Lemma chain_suffix : forall p q, chain (p ++ q) -> q <> [] -> chain q.
  Proof.
    induction p as [|w p IH]; intros q Hc Hq; [exact Hc|]. apply IH; [|exact Hq].
    cbn [app] in Hc. inversion Hc as [x E|x y t Hadj Hc' E]; [|exact Hc'].
    destruct p; [destruct q; [congruence|discriminate]|discriminate].
  Qed.

  Lemma chain_prefix : forall p q, chain (p ++ q) -> p <> [] -> chain p.
  Proof.
    induction p as [|w p IH]; intros q Hc Hp; [congruence|].
    destruct p as [|y p]; [constructor|]. cbn [app] in *. inversion Hc as [|x y' t Hadj Hc' E]; subst.
    constructor; [exact Hadj|]. apply (IH q); [exact Hc'|discriminate].
  Qed.

  Lemma chain_app : forall p x q, chain (p ++ [x]) -> chain (x :: q) -> chain (p ++ x :: q).
  Proof.
    induction p as [|w p IH]; intros x q H1 H2; [exact H2|].
    destruct p as [|y p]; cbn [app] in *.
    - inversion H1; subst. constructor; assumption.
    - inversion H1 as [|? ? ? Hadj Hc']; subst. constructor; [exact Hadj|]. apply IH; assumption.
  Qed.

  Lemma chain_snoc p x z : chain (p ++ [x]) -> In z (adj x) -> chain (p ++ [x; z]).
  Proof. intros Hc Hz. apply chain_app; [exact Hc|]. constructor; [exact Hz|constructor]. Qed.

  Lemma chain_adj : forall p x y q, chain (p ++ x :: y :: q) -> In y (adj x).
  Proof.
    intros p x y q Hc. apply chain_suffix in Hc; [|discriminate]. inversion Hc; assumption.
  Qed.
End Chain.

Section Shorten.
  Variable h : mg nat.
  Variables (a : nat) (C : list nat).
  Hypothesis a_notin : ~ In a C.
  Hypothesis no2 : forall u v, In (u, v) (dir h) -> ~ In (v, u) (dir h).
  Hypothesis nobid : bid h = [].
  Let es := dir h.
  Let anC := ancestors_inclusive h C.
  Notation R := (mreach h C a).
  Notation T := (triples_ok es anC C).
  Notation chain := (chainA (und_adj es)).
  Notation tri := (tri es anC C).
  Notation hmark := (hmark h).

  Lemma C_in_anC x : In x C -> mem x anC = true.
  Proof. intros Hx. apply mem_In. apply ancestors_inclusive_spec. exists x. split; [exact Hx|apply rt_refl]. Qed.

  (* ---- Step A: an active walk as a list of nodes ---- *)
  Definition walk_to (p : list nat) (x : nat) (m : mark) : Prop :=
    (p = [a] /\ x = a /\ m = Tail) \/ (exists p' y, p = p' ++ [y; x] /\ m = hmark y x).

  Lemma walk_list x m : R x m ->
    exists p, hd_error p = Some a /\ chain p /\ T p = true /\ walk_to p x m.
  Proof.
    intros Hr. induction Hr as [|x m mx my y Hr [p [Hhd [Hch [HT Hw]]]] Hs Hp].
    - exists [a]. repeat split; [constructor|left; auto].
    - assert (Hadj : In y (und_adj es x)).
      { apply In_und_adj. inversion Hs as [? ? Hi|? ? Hi|? ? Hi|? ? Hi]; subst; try (rewrite nobid in Hi; destruct Hi); auto. }
      assert (Hmy : my = hmark x y).
      { inversion Hs as [? ? Hi|? ? Hi|? ? Hi|? ? Hi]; subst; try (rewrite nobid in Hi; destruct Hi).
        - symmetry. apply hmark_head. exact Hi.
        - symmetry. apply hmark_tail; assumption. }
      exists (p ++ [y]). destruct Hw as [[-> [-> ->]]|[p' [w [-> ->]]]].
      + cbn [app]. repeat split; [constructor; [exact Hadj|constructor]|]. right. exists [], a. split; [reflexivity|exact Hmy].
      + rewrite <- app_assoc. cbn [app]. split; [destruct p'; exact Hhd|]. split.
        * replace (p' ++ [w; x; y]) with ((p' ++ [w]) ++ [x; y]) by (rewrite <- app_assoc; reflexivity).
          apply chain_snoc; [rewrite <- app_assoc; exact Hch|exact Hadj].
        * split; [|right; exists (p' ++ [w]), x; split; [rewrite <- app_assoc; reflexivity|exact Hmy]].
          rewrite T_app2, HT. cbn [andb]. rewrite T_cons3. cbn [triples_ok]. rewrite andb_true_r.
          unfold MSepShortP.tri, is_collider. fold es.
          inversion Hs as [? ? Hi|? ? Hi|? ? Hi|? ? Hi]; subst; try (rewrite nobid in Hi; destruct Hi).
          -- rewrite (proj2 (mem_false (y, x) es) (no2 _ _ Hi)), andb_false_r. apply negb_true_iff, mem_false.
             destruct (hmark w x); exact Hp.
          -- rewrite (proj2 (mem_In (y, x) es) Hi), andb_true_r. unfold MSepPathP.hmark in Hp. fold es in Hp.
             destruct (mem (w, x) es); [apply C_in_anC; exact Hp|apply negb_true_iff, mem_false; exact Hp].
  Qed.

  (* ---- Step B: cutting a loop out of a relaxed-active walk ---- *)
  (* a chain that starts downhill either stays downhill or meets a collider below its start *)
  Lemma downhill : forall q u s, chain (u :: s :: q) -> T (u :: s :: q) = true -> In (u, s) es ->
    (forall p x y r, u :: s :: q = p ++ x :: y :: r -> In (x, y) es) \/ (exists y, In y anC /\ dpath h u y).
  Proof.
    induction q as [|w q IH]; intros u s Hch HT Hus.
    - left. intros p x y r E. destruct p as [|p0 [|p1 [|p2 p]]]; cbn in E; inversion E; subst; auto; destruct p; discriminate.
    - inversion Hch as [|? ? ? _ Hch']; subst. rewrite T_cons3 in HT. apply andb_true_iff in HT. destruct HT as [Htri HT].
      assert (Hsw : In w (und_adj es s)) by (inversion Hch'; assumption). apply In_und_adj in Hsw.
      destruct (mem (w, s) es) eqn:Ews.
      + right. exists s. split; [|apply rt_step; exact Hus].
        unfold MSepShortP.tri, is_collider in Htri. rewrite (proj2 (mem_In _ _) Hus), Ews in Htri. apply mem_In. exact Htri.
      + apply mem_false in Ews. destruct Hsw as [Hsw|Hws]; [|contradiction].
        destruct (IH s w Hch' HT Hsw) as [Hall|[y [Hy Hd]]].
        * left. intros p x y r E. destruct p as [|p0 p]; cbn in E.
          -- inversion E; subst. exact Hus.
          -- inversion E as [[E0 E1]]. eapply Hall. exact E1.
        * right. exists y. split; [exact Hy|]. eapply rt_trans; [apply rt_step; exact Hus|exact Hd].
  Qed.

  Lemma anC_up x y : In y anC -> dpath h x y -> mem x anC = true.
  Proof.
    intros Hy Hd. apply mem_In. apply ancestors_inclusive_spec in Hy. destruct Hy as [c [Hc Hyc]].
    apply ancestors_inclusive_spec. exists c. split; [exact Hc|eapply rt_trans; eauto].
  Qed.

  Lemma tri_collider l x r : In (l, x) es -> In (r, x) es -> tri l x r = mem x anC.
  Proof. intros H1 H2. unfold MSepShortP.tri, is_collider. rewrite (proj2 (mem_In _ _) H1), (proj2 (mem_In _ _) H2). reflexivity. Qed.
  Lemma tri_noncollider l x r : ~ In (l, x) es \/ ~ In (r, x) es -> tri l x r = negb (mem x C).
  Proof.
    intros Hn. unfold MSepShortP.tri, is_collider.
    destruct Hn as [Hn|Hn]; rewrite (proj2 (mem_false _ _) Hn); [|rewrite andb_false_r]; reflexivity.
  Qed.

  (* the junction triple after removing the loop x ... x *)
  Lemma junction l x s mid t r :
    chain (x :: mid ++ [x]) -> T (x :: mid ++ [x]) = true ->
    hd_error (mid ++ [x]) = Some s -> (exists mid', x :: mid = mid' ++ [t]) ->
    In l (und_adj es x) -> In r (und_adj es x) ->
    tri l x s = true -> tri t x r = true -> tri l x r = true.
  Proof.
    intros Hch HT Hs [mid' Ht] Hl Hr H1 H2.
    apply In_und_adj in Hl, Hr.
    assert (Hxs : In s (und_adj es x)).
    { destruct mid as [|s' mid]; cbn in Hs; inversion Hs; subst; inversion Hch; assumption. }
    assert (Htx : In x (und_adj es t)).
    { assert (E : x :: mid ++ [x] = mid' ++ [t; x]).
      { change (x :: mid ++ [x]) with ((x :: mid) ++ [x]). rewrite Ht, <- app_assoc. reflexivity. }
      rewrite E in Hch. eapply chain_adj. exact Hch. }
    apply In_und_adj in Hxs, Htx.
    destruct (mem (l, x) es) eqn:Elx; [apply mem_In in Elx|apply mem_false in Elx].
    2:{ (* tail at x towards l: x must be outside C; if it were in C both old triples would be colliders, in particular l -> x *)
      rewrite tri_noncollider by (left; exact Elx). apply negb_true_iff. apply mem_false. intros HxC.
      rewrite tri_noncollider in H1 by (left; exact Elx). apply negb_true_iff, mem_false in H1. contradiction. }
    destruct (mem (r, x) es) eqn:Erx; [apply mem_In in Erx|apply mem_false in Erx].
    2:{ rewrite tri_noncollider by (right; exact Erx). rewrite tri_noncollider in H2 by (right; exact Erx). exact H2. }
    (* collider l -> x <- r *)
    rewrite tri_collider by assumption.
    destruct (mem (s, x) es) eqn:Esx; [apply mem_In in Esx; rewrite tri_collider in H1 by assumption; exact H1|apply mem_false in Esx].
    destruct (mem (t, x) es) eqn:Etx; [apply mem_In in Etx; rewrite tri_collider in H2 by assumption; exact H2|apply mem_false in Etx].
    assert (Hxs' : In (x, s) es) by (destruct Hxs; [assumption|contradiction]).
    assert (Hxt' : In (x, t) es) by (destruct Htx as [Htx|Htx]; [contradiction|assumption]).
    (* the loop leaves x downhill and comes back uphill: it turns at a collider below x *)
    destruct (mid ++ [x]) as [|s0 rest] eqn:Em; [destruct mid; discriminate|]. cbn in Hs. injection Hs as ->.
    destruct (downhill rest x s Hch HT Hxs') as [Hall|[y [Hy Hd]]].
    - exfalso. assert (E : x :: s :: rest = mid' ++ [t; x]).
      { rewrite <- Em. change (x :: mid ++ [x]) with ((x :: mid) ++ [x]). rewrite Ht, <- app_assoc. reflexivity. }
      apply (no2 _ _ Hxt'). eapply (Hall mid' t x []). exact E.
    - eapply anC_up; eauto.
  Qed.

  Lemma nodup_or_repeat : forall p : list nat, NoDup p \/ exists p1 x p2 p3, p = p1 ++ x :: p2 ++ x :: p3.
  Proof.
    induction p as [|w p IH]; [left; constructor|].
    destruct (in_dec Nat.eq_dec w p) as [Hin|Hnin].
    - right. apply in_split in Hin. destruct Hin as [p2 [p3 ->]]. exists [], w, p2, p3. reflexivity.
    - destruct IH as [Hnd|[p1 [x [p2 [p3 ->]]]]]; [left; constructor; assumption|].
      right. exists (w :: p1), x, p2, p3. reflexivity.
  Qed.

  Lemma last_exists {X} (x : X) l : exists l' t, x :: l = l' ++ [t].
  Proof.
    revert x. induction l as [|y l IH]; intros x; [exists [], x; reflexivity|].
    destruct (IH y) as [l' [t E]]. exists (x :: l'), t. cbn. rewrite E. reflexivity.
  Qed.

  Lemma shorten : forall n p b, length p <= n ->
    hd_error p = Some a -> last_is b p -> chain p -> T p = true ->
    exists p', NoDup p' /\ hd_error p' = Some a /\ last_is b p' /\ chain p' /\ T p' = true.
  Proof.
    induction n as [|n IH]; intros p b Hlen Hhd Hl Hch HT.
    - destruct p; [discriminate|cbn in Hlen; lia].
    - destruct (nodup_or_repeat p) as [Hnd|[p1 [x [p2 [p3 E]]]]]; [exists p; auto|]. subst p.
      apply (IH (p1 ++ x :: p3) b).
      + rewrite !app_length in *. cbn [length] in *. rewrite app_length in Hlen. cbn [length] in Hlen. lia.
      + destruct p1; exact Hhd.
      + destruct Hl as [pre E]. destruct (last_exists x p3) as [l' [t Et]].
        assert (t = b).
        { replace (p1 ++ x :: p2 ++ x :: p3) with ((p1 ++ x :: p2 ++ l') ++ [t]) in E
            by (rewrite <- app_assoc; cbn [app]; rewrite <- app_assoc, <- Et; reflexivity).
          apply app_inj_tail in E. tauto. }
        subst t. exists (p1 ++ l'). rewrite Et, app_assoc. reflexivity.
      + assert (H1 : chain (p1 ++ [x])).
        { apply (chain_prefix _ (p1 ++ [x]) (p2 ++ x :: p3)); [|destruct p1; discriminate].
          rewrite <- app_assoc. exact Hch. }
        assert (H2 : chain (x :: p3)).
        { apply (chain_suffix _ (p1 ++ x :: p2) (x :: p3)); [|discriminate]. rewrite <- app_assoc. exact Hch. }
        apply chain_app; assumption.
      + (* the triples *)
        assert (Hsuf : T (x :: p3) = true).
        { replace (p1 ++ x :: p2 ++ x :: p3) with ((p1 ++ x :: p2) ++ x :: p3) in HT by (rewrite <- app_assoc; reflexivity).
          eapply T_suffix; eauto. }
        destruct p1 as [|a0 p1'] eqn:Ep1; [exact Hsuf|].
        destruct p3 as [|r p3'].
        { eapply T_prefix with (q := p2 ++ [x]). rewrite <- app_assoc. exact HT. }
        destruct (last_exists a0 p1') as [q1 [l El]]. rewrite El in *.
        rewrite <- app_assoc. cbn [app]. rewrite T_app2. apply andb_true_iff. split.
        * eapply T_prefix with (q := p2 ++ x :: r :: p3').
          replace ((q1 ++ [l; x]) ++ p2 ++ x :: r :: p3') with ((q1 ++ [l]) ++ x :: p2 ++ x :: r :: p3')
            by (rewrite <- !app_assoc; reflexivity). exact HT.
        * rewrite T_cons3. apply andb_true_iff. split; [|exact Hsuf].
          destruct (last_exists x p2) as [mid' [t Et]].
          assert (Hloop : (q1 ++ [l]) ++ x :: p2 ++ x :: r :: p3' = (q1 ++ [l]) ++ (x :: p2 ++ [x]) ++ r :: p3').
          { f_equal. cbn [app]. f_equal. rewrite <- app_assoc. reflexivity. }
          assert (HchL : chain (x :: p2 ++ [x])).
          { rewrite Hloop in Hch. apply chain_suffix in Hch; [|discriminate]. apply chain_prefix in Hch; [exact Hch|discriminate]. }
          assert (HTL : T (x :: p2 ++ [x]) = true).
          { rewrite Hloop in HT. apply T_suffix in HT. eapply T_prefix; eauto. }
          destruct (p2 ++ [x]) as [|s rest] eqn:Es; [destruct p2; discriminate|].
          apply (junction l x s p2 t r).
          -- rewrite Es. exact HchL.
          -- rewrite Es. exact HTL.
          -- rewrite Es. reflexivity.
          -- exists mid'. exact Et.
          -- apply In_und_adj. replace ((q1 ++ [l]) ++ x :: p2 ++ x :: r :: p3') with (q1 ++ l :: x :: (p2 ++ x :: r :: p3')) in Hch
               by (rewrite <- app_assoc; reflexivity).
             apply chain_adj in Hch. apply In_und_adj in Hch. tauto.
          -- replace ((q1 ++ [l]) ++ x :: p2 ++ x :: r :: p3') with (((q1 ++ [l]) ++ x :: p2) ++ x :: r :: p3') in Hch
               by (rewrite <- !app_assoc; reflexivity).
             apply chain_adj in Hch. exact Hch.
          -- replace ((q1 ++ [l]) ++ x :: p2 ++ x :: r :: p3') with (q1 ++ l :: x :: s :: (rest ++ r :: p3')) in HT.
             2:{ rewrite <- app_assoc. cbn [app]. f_equal. f_equal. f_equal.
                 change (s :: rest ++ r :: p3') with ((s :: rest) ++ r :: p3'). rewrite <- Es, <- app_assoc. reflexivity. }
             apply T_suffix in HT. rewrite T_cons3 in HT. apply andb_true_iff in HT. tauto.
          -- replace ((q1 ++ [l]) ++ x :: p2 ++ x :: r :: p3') with (((q1 ++ [l]) ++ mid') ++ t :: x :: r :: p3') in HT.
             2:{ rewrite <- !app_assoc. cbn [app]. f_equal. f_equal.
                 change (x :: p2 ++ x :: r :: p3') with ((x :: p2) ++ x :: r :: p3'). rewrite Et, <- app_assoc. reflexivity. }
             apply T_suffix in HT. rewrite T_cons3 in HT. apply andb_true_iff in HT. tauto.
  Qed.
End Shorten.

(* ---- Step C: the enumeration of simple paths is complete ---- *)
Section SPathsComplete.
  Context {A : Type} `{EqB A}.
  Variable adj : A -> list A.

  Lemma spaths_complete tgt : forall suf fuel path_rev cur,
    chainA adj (cur :: suf) -> last_is tgt (cur :: suf) -> NoDup (rev path_rev ++ cur :: suf) -> length suf <= fuel ->
    In (rev path_rev ++ cur :: suf) (spaths fuel adj path_rev cur tgt).
  Proof.
    induction suf as [|n suf IH]; intros fuel path_rev cur Hch Hl Hnd Hlen.
    - apply last_is_one in Hl. subst. destruct fuel; cbn [spaths]; rewrite eqb_refl; left; cbn [rev]; reflexivity.
    - destruct fuel as [|f]; [cbn in Hlen; lia|]. cbn [spaths].
      assert (Hne : cur <> tgt).
      { intros ->. apply NoDup_remove_2 in Hnd. apply Hnd. apply in_or_app. right.
        apply last_is_cons in Hl. destruct Hl as [pre ->]. apply in_or_app. right. left. reflexivity. }
      rewrite (proj2 (eqb_neq cur tgt) Hne). apply in_flat_map. inversion Hch as [|? ? ? Hadj Hch']; subst.
      exists n. split; [exact Hadj|].
      assert (Hm : mem n (cur :: path_rev) = false).
      { apply mem_false. intros Hin. replace (rev path_rev ++ cur :: n :: suf) with ((rev path_rev ++ [cur]) ++ n :: suf) in Hnd
          by (rewrite <- app_assoc; reflexivity).
        apply NoDup_remove_2 in Hnd. apply Hnd. apply in_or_app. left.
        destruct Hin as [<-|Hin]; [apply in_or_app; right; left; reflexivity|apply in_or_app; left; apply in_rev in Hin; exact Hin]. }
      rewrite Hm.
      replace (rev path_rev ++ cur :: n :: suf) with (rev (cur :: path_rev) ++ n :: suf) by (cbn [rev]; rewrite <- app_assoc; reflexivity).
      apply IH; [exact Hch'|eapply last_is_cons; exact Hl| |cbn in Hlen; lia].
      cbn [rev]. rewrite <- app_assoc. exact Hnd.
  Qed.
End SPathsComplete.

Lemma chain_nodes (h : mg nat) : wf h -> forall p x, chainA (und_adj (dir h)) p -> hd_error p = Some x -> In x (nodes h) -> incl p (nodes h).
Proof.
  intros [Hw _] p. induction p as [|w p IH]; intros x Hch Hhd Hx; [intros ? []|].
  cbn in Hhd. injection Hhd as ->. intros v [<-|Hv]; [exact Hx|].
  destruct p as [|y p]; [destruct Hv|]. inversion Hch as [|? ? ? Hadj Hch']; subst.
  apply In_und_adj in Hadj. assert (Hy : In y (nodes h)) by (destruct Hadj as [Hadj|Hadj]; apply Hw in Hadj; tauto).
  exact (IH y Hch' eq_refl Hy v Hv).
Qed.

(* ---- assembly: an active walk of the latent DAG is found by the textbook path specification ---- *)
Theorem walk_spec_connected (g : mg nat) a b C :
  wf g -> (forall u v, In (u, v) (dir g) -> ~ In (v, u) (dir g)) ->
  In a (nodes g) -> In b (nodes g) -> incl C (nodes g) -> ~ In a C ->
  m_connected g C a b -> d_connected_spec g a b C = true.
Proof.
  intros Hw Hno Ha Hb HC Hna Hconn. apply (m_connected_lat g Hw a C Ha HC b Hb) in Hconn.
  assert (HnoL : forall u v, In (u, v) (dir (lat g)) -> ~ In (v, u) (dir (lat g))).
  { intros u v Huv Hvu. apply dirL in Huv. apply dirL in Hvu. destruct Huv as [Huv|Huv], Hvu as [Hvu|Hvu].
    - exact (Hno _ _ Huv Hvu).
    - apply (dir_lt g Hw) in Huv. apply lat_edge in Hvu. destruct Hvu as [i [_ [_ [_ [Hu _]]]]]. lia.
    - apply (dir_lt g Hw) in Hvu. apply lat_edge in Huv. destruct Huv as [i [_ [_ [_ [Hu _]]]]]. lia.
    - apply lat_edge in Huv. destruct Huv as [i [p [q [Hn [Hu Hx]]]]]. apply lat_edge in Hvu. destruct Hvu as [j [_ [_ [_ [Hv _]]]]].
      apply nth_error_In in Hn. apply (bid_lt g Hw) in Hn. destruct Hx; lia. }
  assert (HwL : wf (lat g)).
  { split; [|intros u v []]. intros u v Huv. apply dirL in Huv. unfold lat. cbn [nodes]. rewrite !in_app_iff, !in_seq.
    destruct Huv as [Huv|Huv].
    - destruct Hw as [Hw _]. apply Hw in Huv. tauto.
    - apply lat_edge in Huv. destruct Huv as [i [p [q [Hn [Hu Hx]]]]].
      assert (Hi : i < length (bid g)) by (apply nth_error_Some; congruence).
      apply nth_error_In in Hn. destruct Hw as [_ Hw]. apply Hw in Hn. split; [right; lia|left; destruct Hx; subst; tauto]. }
  destruct Hconn as [m Hr].
  destruct (walk_list (lat g) a C HnoL eq_refl b m Hr) as [p [Hhd [Hch [HT Hwt]]]].
  assert (Hl : last_is b p).
  { destruct Hwt as [[-> [-> _]]|[p' [y [-> _]]]]; [exists []; reflexivity|exists (p' ++ [y]); rewrite <- app_assoc; reflexivity]. }
  destruct (shorten (lat g) a C HnoL (length p) p b (le_n _) Hhd Hl Hch HT) as [p' [Hnd [Hhd' [Hl' [Hch' HT']]]]].
  unfold d_connected_spec. apply existsb_exists. exists p'. split; [|exact HT'].
  destruct p' as [|a' suf]; [discriminate|]. cbn in Hhd'. injection Hhd' as ->.
  unfold all_simple_paths_und. apply (spaths_complete (und_adj (dir (lat g))) b suf (length (nodes (lat g))) [] a Hch' Hl' Hnd).
  assert (Hincl : incl (a :: suf) (nodes (lat g))).
  { apply (chain_nodes (lat g) HwL (a :: suf) a Hch' eq_refl). unfold lat. cbn [nodes]. apply in_or_app. left. exact Ha. }
  pose proof (NoDup_incl_length Hnd Hincl) as Hlen. cbn [length] in Hlen. lia.
Qed.
