(* C16, part 2: transform_latents_with_parents (rule 2 applied along a topological order) preserves the projection and
   leaves every latent either without parents or without children. *)
From Coq Require Import List Bool Arith Lia Permutation.
From Y0 Require Import Base.ListSet Graph.Closure Graph.MixedGraph Graph.DSep Graph.LatentDag
  Proofs.SurgeryP Proofs.LatentDagP Proofs.KahnSoundP Proofs.LvProjP.
Import ListNotations.

Definition exo (d : lv) (K : nat) : Prop := forall u, ~ Ed d u K.
Definition childless (d : lv) (K : nat) : Prop := forall v, ~ Ed d K v.

Lemma before_head_absurd {T} (x : T) o u : NoDup (x :: o) -> ~ before (x :: o) u x.
Proof.
  intros Hnd [l1 [l2 [l3 E]]]. inversion Hnd as [|? ? Hx _]; subst. apply Hx.
  destruct l1 as [|a l1]; cbn in E; inversion E as [[E1 E2]].
  - apply in_or_app. right. left. reflexivity.
  - apply in_or_app. right. right. apply in_or_app. right. left. reflexivity.
Qed.

Lemma before_tail {T} (x : T) o u v : u <> x -> before (x :: o) u v -> before o u v.
Proof.
  intros Hne [l1 [l2 [l3 E]]]. destruct l1 as [|a l1]; cbn in E; inversion E as [[E1 E2]]; [congruence|]. exists l1, l2, l3. reflexivity.
Qed.

Lemma before_in_r {T} (o : list T) u v : before o u v -> In v o.
Proof. intros [l1 [l2 [l3 ->]]]. apply in_or_app. right. right. apply in_or_app. right. left. reflexivity. Qed.

Section Fold.
  Variable d : lv.

  Record J (acc : lv) (rest : list nat) : Prop := {
    j_wf : lwf acc;
    j_proj : same_proj d acc;
    j_fwd : forall u v, Ed acc u v -> ~ In u rest \/ before rest u v;
    j_done : forall K, latp acc K -> ~ In K rest -> exo acc K \/ childless acc K;
    j_fresh : forall K, In K rest -> latp acc K -> ~ In (prime K) (lnodes acc);
    j_nodes : incl rest (lnodes acc)
  }.

  Definition step (a : lv) (L : nat) : lv := if mem L (llat a) then transform_one a L else a.

  Lemma J_skip acc L o2 : NoDup (L :: o2) -> J acc (L :: o2) ->
    (latp acc L -> exo acc L \/ childless acc L) -> J acc o2.
  Proof.
    intros Hnd [Hw Hp Hf Hd Hfr Hn] HL. inversion Hnd as [|? ? HLo _]; subst. constructor; auto.
    - intros u v He. destruct (Hf u v He) as [Hu|Hb]; [left; intros F; apply Hu; right; exact F|].
      destruct (Nat.eq_dec u L) as [->|Hne]; [left; exact HLo|right; eapply before_tail; eauto].
    - intros K HK HKo. destruct (Nat.eq_dec K L) as [->|Hne]; [apply HL; exact HK|].
      apply Hd; [exact HK|]. intros [E|F]; [congruence|contradiction].
    - intros K HK. apply Hfr. right. exact HK.
    - intros x Hx. apply Hn. right. exact Hx.
  Qed.

  Lemma J_step acc L o2 : NoDup (L :: o2) -> J acc (L :: o2) -> J (step acc L) o2.
  Proof.
    intros Hnd HJ. pose proof HJ as [Hw Hp Hf Hd Hfr Hn]. inversion Hnd as [|? ? HLo Hnd2]; subst. unfold step.
    destruct (mem L (llat acc)) eqn:Em; [|apply (J_skip acc L o2 Hnd HJ); intros F; apply mem_false in Em; contradiction].
    apply mem_In in Em.
    destruct (lpreds acc L) as [|p0 pt] eqn:Eps.
    { unfold transform_one. rewrite Eps. cbn [is_nil orb]. apply (J_skip acc L o2 Hnd HJ). intros _. left.
      intros u He. apply In_lpreds' in He. rewrite Eps in He. destruct He. }
    destruct (lsuccs acc L) as [|c0 ct] eqn:Ecs.
    { unfold transform_one. rewrite Eps, Ecs. cbn [is_nil orb]. apply (J_skip acc L o2 Hnd HJ). intros _. right.
      intros v He. apply In_lsuccs' in He. rewrite Ecs in He. destruct He. }
    (* the rule fires *)
    assert (Hfresh : ~ In (prime L) (lnodes acc)) by (apply Hfr; [left; reflexivity|exact Em]).
    assert (Hnoloop : ~ Ed acc L L).
    { intros He. destruct (Hf L L He) as [Hu|Hb]; [apply Hu; left; reflexivity|exact (before_head_absurd L o2 L Hnd Hb)]. }
    assert (Hps : lpreds acc L <> []) by (rewrite Eps; discriminate).
    assert (Hcs : lsuccs acc L <> []) by (rewrite Ecs; discriminate).
    assert (Hpar : forall p, Ed acc p L -> ~ In p (L :: o2)).
    { intros p He. destruct (Hf p L He) as [Hu|Hb]; [exact Hu|exfalso; exact (before_head_absurd L o2 p Hnd Hb)]. }
    assert (Hchild : forall c, Ed acc L c -> In c o2).
    { intros c He. destruct (Hf L c He) as [Hu|Hb]; [exfalso; apply Hu; left; reflexivity|].
      apply before_in_r in Hb. destruct Hb as [<-|Hb]; [contradiction|exact Hb]. }
    assert (HL'rest : ~ In (prime L) (L :: o2)) by (intros F; apply Hfresh; apply Hn; exact F).
    set (acc' := transform_one acc L).
    constructor.
    - apply rule2_lwf; assumption.
    - eapply same_proj_trans; [exact Hp|]. apply rule2_same_proj; assumption.
    - intros u v He. apply (E'_iff acc L Hps Hcs) in He. destruct He as [[He [HuL HvL]]|[[H1 H2]|[-> H2]]].
      + destruct (Hf u v He) as [Hu|Hb]; [left; intros F; apply Hu; right; exact F|right; eapply before_tail; eauto].
      + left. intros F. apply (Hpar u H1). right. exact F.
      + left. intros F. apply HL'rest. right. exact F.
    - intros K HK HKo. apply (lat'_iff acc L Hps Hcs) in HK. destruct HK as [[HK HKL]| ->].
      + assert (HKr : ~ In K (L :: o2)) by (intros [E|F]; [congruence|contradiction]).
        destruct (Hd K HK HKr) as [Hex|Hch].
        * left. intros u He. apply (E'_iff acc L Hps Hcs) in He. destruct He as [[He _]|[[_ H2]|[_ H2]]].
          -- exact (Hex u He).
          -- apply HKo. apply Hchild. exact H2.
          -- apply HKo. apply Hchild. exact H2.
        * right. intros v He. apply (E'_iff acc L Hps Hcs) in He. destruct He as [[He _]|[[H1 _]|[E _]]].
          -- exact (Hch v He).
          -- exact (Hch L H1).
          -- apply Hfresh. rewrite <- E. apply (proj2 Hw). exact HK.
      + left. intros u He. exact (no_edge_into_L' acc L Hw Hfresh Hps Hcs u He).
    - intros K HK HKl. apply (lat'_iff acc L Hps Hcs) in HKl. destruct HKl as [[HKl HKL]| ->].
      + intros F. apply (nodes'_iff acc L Hps Hcs) in F. destruct F as [[F _]|F].
        * exact (Hfr K (or_intror HK) HKl F).
        * unfold prime in F. injection F as F. congruence.
      + exfalso. apply HL'rest. right. exact HK.
    - intros x Hx. apply (nodes'_iff acc L Hps Hcs). left. split; [apply Hn; right; exact Hx|intros ->; contradiction].
  Qed.

  Lemma J_fold order : NoDup order -> forall acc, J acc order -> J (fold_left step order acc) [].
  Proof.
    induction order as [|L o2 IH]; intros Hnd acc HJ; [exact HJ|]. cbn [fold_left]. inversion Hnd; subst.
    apply IH; [assumption|]. apply J_step; assumption.
  Qed.

  Hypothesis Hwf : lwf d.
  Hypothesis Hnd : NoDup (lnodes d).
  Hypothesis Hfresh : forall K, latp d K -> ~ In (prime K) (lnodes d).
  Hypothesis Hacyc : is_acyclic (MG (lnodes d) (ledges d) []) = true.

  Theorem transform_result :
    let t := transform_latents_with_parents d in
    lwf t /\ same_proj d t /\ forall K, latp t K -> exo t K \/ childless t K.
  Proof.
    cbv zeta. unfold transform_latents_with_parents. change (fun acc L => if mem L (llat acc) then transform_one acc L else acc) with step.
    unfold lv_topo. unfold is_acyclic in Hacyc. destruct (topological_sort (MG (lnodes d) (ledges d) [])) as [o|] eqn:Et; [|discriminate].
    destruct (topological_sort_sound (MG (lnodes d) (ledges d) []) o Hnd Et) as [Hperm Hfw]. cbn [nodes dir] in *.
    assert (Hndo : NoDup o) by (eapply Permutation_NoDup; eauto).
    assert (HJ0 : J d o).
    { constructor.
      - exact Hwf.
      - apply same_proj_refl.
      - intros u v He. right. destruct Hwf as [Hw _]. destruct (Hw u v He). apply Hfw; assumption.
      - intros K HK HKo. exfalso. apply HKo. eapply Permutation_in; [exact Hperm|]. apply (proj2 Hwf). exact HK.
      - intros K _ HK. apply Hfresh. exact HK.
      - intros x Hx. eapply Permutation_in; [apply Permutation_sym; exact Hperm|exact Hx]. }
    destruct (J_fold o Hndo d HJ0) as [Hw Hp _ Hd _ _]. split; [exact Hw|]. split; [exact Hp|].
    intros K HK. apply Hd; [exact HK|intros []].
  Qed.
End Fold.
