From Coq Require Import List Bool Arith.
From Y0 Require Import Base.ListSet Graph.MixedGraph Dsl.Syntax Dsl.Build Alg.Id Alg.Tian Alg.Cg Alg.CtfAnc Alg.CtfTr.
Import ListNotations.

(* ctfTRu answers "zero, no event" exactly when SIMPLIFY declares the event impossible *)
Theorem uncond_zero_iff_simplify_fails ev target domains :
  (exists e, transport_unconditional ev target domains = CftOk e None) <-> simplify ev target = SNone.
Proof.
  unfold transport_unconditional. split.
  - intros [e H]. destruct (simplify ev target) as [s| |k]; [|reflexivity|discriminate].
    exfalso. destruct (map_opt _ s); [|discriminate].
    destruct (negb (is_counterfactual_factor_form _ _)); [discriminate|].
    destruct (existsb factor_is_inconsistent _); [discriminate|].
    destruct (find _ _) as [[?| |?]|]; try destruct (existsb _ _); try discriminate;
      destruct (sum_safe _ _ _); discriminate.
  - intros ->. exists EZero. reflexivity.
Qed.

Theorem uncond_zero_answer_is_zero ev target domains e :
  transport_unconditional ev target domains = CftOk e None -> e = EZero.
Proof.
  intros H. assert (Hs : simplify ev target = SNone) by (apply (proj1 (uncond_zero_iff_simplify_fails ev target domains)); eexists; exact H).
  unfold transport_unconditional in H. rewrite Hs in H. inversion H. reflexivity.
Qed.

(* Algorithm 4 with no usable domain fails *)
Theorem transport_district_without_domains district : transport_district district [] = TFail.
Proof. reflexivity. Qed.
