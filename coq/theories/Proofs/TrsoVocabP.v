(* C06, second clause: every estimand of the transport algorithm (TRSO) consists of terms of the target observational
   distribution, or of a declared source domain under a subset of that domain's declared experimental variables, over
   the user's nodes only - in particular it never mentions a selection (transport) node. *)
From Coq Require Import List Bool Arith Permutation Lia.
From Y0 Require Import Base.ListSet Graph.Closure Graph.MixedGraph Graph.DSep Graph.CondInd
  Dsl.Syntax Dsl.Text Dsl.Build Dsl.Canon Alg.Id Alg.Trso Alg.Vocab
  Proofs.ClosureP Proofs.SurgeryP Proofs.DistrictsP Proofs.SortP Proofs.ExprP Proofs.AtomsP Proofs.StarVocabP.
Import ListNotations.

Section TrsoVocab.
  Variable N : list nat.                  (* the user's nodes *)
  Variable S0 : list (nat * list nat).    (* declared source domains: population -> experimental variables *)

  Notation pv := (plain_var N).

  (* a plain term tagged with one of the populations K *)
  Definition A_pl (K : list nat) (pop : option var) (ch pa : list var) : bool :=
    match pop with Some p => eqb p (V (vn p)) && mem (vn p) K | None => false end
    && negb (is_nil ch) && forallb pv ch && forallb pv pa.
  Definition A_tr (pop : option var) (ch pa : list var) : bool := trso_vocab N TARGET S0 (EProb pop ch pa).

  Lemma pv_not_bad v : pv v = true -> bad_range v = false.
  Proof. unfold plain_var, bad_range. rewrite !andb_true_iff. intros [[[Hk _] _] _]. apply eqb_true in Hk. rewrite Hk. reflexivity. Qed.

  Lemma pv_fields v : pv v = true -> vk v = KVar /\ vs v = None /\ vi v = [] /\ In (vn v) N.
  Proof.
    unfold plain_var. rewrite !andb_true_iff, mem_In. intros [[[H1 H2] H3] H4]. apply eqb_true in H1, H2.
    repeat split; auto. destruct (vi v); [reflexivity|discriminate].
  Qed.

  Lemma A_pl_spec K pop ch pa : A_pl K pop ch pa = true <->
    (exists k, pop = Some (V k) /\ In k K) /\ ch <> [] /\ forallb pv ch = true /\ forallb pv pa = true.
  Proof.
    unfold A_pl. rewrite !andb_true_iff, negb_true_iff. split.
    - intros [[[Hp Hne] Hc] Hpa]. destruct pop as [p|]; [|discriminate]. apply andb_true_iff in Hp. destruct Hp as [Hp Hk].
      apply eqb_true in Hp. apply mem_In in Hk. repeat split; auto; [exists (vn p); split; [f_equal; exact Hp|exact Hk]|intros ->; discriminate].
    - intros [[k [-> Hk]] [Hne [Hc Hpa]]]. repeat split; auto; [cbn [vn V]; rewrite eqb_refl; cbn; apply mem_In; exact Hk|destruct ch; [congruence|reflexivity]].
  Qed.

  Lemma A_pl_sub K pop ch ch' : A_pl K pop ch [] = true -> incl ch' ch -> NoDup ch' -> ch' <> [] -> A_pl K pop ch' [] = true.
  Proof.
    intros H Hi _ Hne. apply A_pl_spec in H. destruct H as [Hp [_ [Hc _]]]. apply A_pl_spec. repeat split; auto.
    eapply forallb_incl; eauto.
  Qed.

  Lemma A_pl_perm K pop ch ch' pa pa' : Permutation ch ch' -> Permutation pa pa' -> A_pl K pop ch pa = true -> A_pl K pop ch' pa' = true.
  Proof.
    intros Hc Hp H. apply A_pl_spec in H. destruct H as [Hpop [Hne [H1 H2]]]. apply A_pl_spec. repeat split; auto.
    - intros ->. apply Permutation_sym, Permutation_nil in Hc. congruence.
    - eapply forallb_perm'; eauto.
    - eapply forallb_perm'; eauto.
  Qed.

  Lemma A_pl_mono K K' pop ch pa : incl K K' -> A_pl K pop ch pa = true -> A_pl K' pop ch pa = true.
  Proof. intros Hi H. apply A_pl_spec in H. apply A_pl_spec. destruct H as [[k [Hp Hk]] Hr]. split; [exists k; auto|exact Hr]. Qed.

  (* the vocabulary predicate on one term, unfolded *)
  Lemma A_tr_spec pop ch pa : A_tr pop ch pa = true <->
    exists p, pop = Some p /\ vk p = KVar /\
      let w := atom_world ch pa in
      forallb (world_var N w) ch = true /\ forallb (world_var N w) pa = true /\
      (if Nat.eqb (vn p) TARGET then w = []
       else exists d, find (fun d => Nat.eqb (fst d) (vn p)) S0 = Some d /\ forallb (fun i : nat * bool => mem (fst i) (snd d) && negb (snd i)) w = true).
  Proof.
    unfold A_tr. cbn [trso_vocab]. destruct pop as [p|]; [|split; [discriminate|intros [p [F _]]; discriminate]].
    rewrite !andb_true_iff. split.
    - intros [[[H1 H2] H3] H4]. exists p. split; [reflexivity|]. split; [apply eqb_true; exact H3|]. cbv zeta. split; [exact H1|]. split; [exact H2|].
      destruct (Nat.eqb (vn p) TARGET); [destruct (atom_world ch pa); [reflexivity|discriminate]|].
      destruct (find _ S0) as [d|]; [exists d; auto|discriminate].
    - intros [p' [E [Hk [H1 [H2 H3]]]]]. injection E as <-. repeat split; auto; [rewrite Hk; reflexivity|].
      destruct (Nat.eqb (vn p) TARGET); [rewrite H3; reflexivity|]. destruct H3 as [d [-> Hd]]. exact Hd.
  Qed.

  Lemma world_var_vi w v : world_var N w v = true -> vi v = w.
  Proof. unfold world_var. rewrite !andb_true_iff. intros [[[_ _] H] _]. apply eqb_true. exact H. Qed.

  Lemma atom_world_of ch pa w : ch <> [] -> forallb (world_var N w) ch = true -> atom_world ch pa = w.
  Proof. intros Hne H. destruct ch as [|c t]; [congruence|]. cbn [forallb] in H. apply andb_true_iff in H. cbn [atom_world]. apply world_var_vi. apply H. Qed.

  Lemma A_tr_sub pop ch ch' : A_tr pop ch [] = true -> incl ch' ch -> NoDup ch' -> ch' <> [] -> A_tr pop ch' [] = true.
  Proof.
    intros H Hi _ Hne. apply A_tr_spec in H. destruct H as [p [-> [Hk [H1 [_ H3]]]]]. cbv zeta in *.
    set (w := atom_world ch []) in *. apply A_tr_spec. exists p. split; [reflexivity|]. split; [exact Hk|]. cbv zeta.
    assert (Hc' : forallb (world_var N w) ch' = true) by (eapply forallb_incl; eauto).
    rewrite (atom_world_of ch' [] w Hne Hc'). split; [exact Hc'|]. split; [reflexivity|exact H3].
  Qed.

  Lemma A_tr_perm pop ch ch' pa pa' : Permutation ch ch' -> Permutation pa pa' -> A_tr pop ch pa = true -> A_tr pop ch' pa' = true.
  Proof.
    intros Hc Hp H. apply A_tr_spec in H. destruct H as [p [-> [Hk [H1 [H2 H3]]]]]. cbv zeta in *.
    destruct ch as [|c0 ct].
    { apply Permutation_nil in Hc. subst ch'. apply A_tr_spec. exists p. split; [reflexivity|]. split; [exact Hk|]. cbv zeta. cbn [atom_world] in *.
      split; [reflexivity|]. split; [eapply forallb_perm'; eauto|exact H3]. }
    set (w := atom_world (c0 :: ct) pa) in *.
    assert (Hc' : forallb (world_var N w) ch' = true) by (eapply forallb_perm'; eauto).
    assert (Hne : ch' <> []) by (intros ->; apply Permutation_sym, Permutation_nil in Hc; discriminate).
    apply A_tr_spec. exists p. split; [reflexivity|]. split; [exact Hk|]. cbv zeta. rewrite (atom_world_of ch' pa' w Hne Hc').
    split; [exact Hc'|]. split; [eapply forallb_perm'; eauto|exact H3].
  Qed.

  Lemma pv_world v : pv v = true -> world_var N [] v = true.
  Proof.
    intros H. destruct (pv_fields v H) as [Hk [Hs [Hi Hn]]]. unfold world_var. rewrite Hk, Hs, Hi. cbn.
    rewrite (proj2 (mem_In _ _) Hn). reflexivity.
  Qed.

  (* a plain target-tagged term is in the vocabulary *)
  Lemma A_pl_target pop ch pa : A_pl [TARGET] pop ch pa = true -> A_tr pop ch pa = true.
  Proof.
    intros H. apply A_pl_spec in H. destruct H as [[k [-> [<-|[]]]] [Hne [Hc Hp]]]. apply A_tr_spec. exists (V TARGET). split; [reflexivity|]. split; [reflexivity|]. cbv zeta.
    assert (Hc' : forallb (world_var N []) ch = true) by (rewrite forallb_forall in *; intros x Hx; apply pv_world; apply Hc; exact Hx).
    rewrite (atom_world_of ch pa [] Hne Hc'). split; [exact Hc'|]. split; [|reflexivity].
    rewrite forallb_forall in *. intros x Hx. apply pv_world. apply Hp. exact Hx.
  Qed.

  Lemma all_atoms_mono (A1 A2 : option var -> list var -> list var -> bool) (Rg : var -> bool) :
    (forall pop ch pa, A1 pop ch pa = true -> A2 pop ch pa = true) -> forall e, all_atoms A1 Rg e = true -> all_atoms A2 Rg e = true.
  Proof.
    intros Hm. induction e as [pop ch pa|es IH|e rs IH|n d IHn IHd| | |dm cd|k] using expr_ind'; cbn [all_atoms]; intros H; try exact H.
    - apply Hm. exact H.
    - rewrite forallb_forall in *. rewrite Forall_forall in IH. intros x Hx. apply IH; [exact Hx|apply H; exact Hx].
    - apply andb_true_iff in H. destruct H as [H1 H2]. rewrite (IH H1), H2. reflexivity.
    - apply andb_true_iff in H. destruct H as [H1 H2]. rewrite (IHn H1), (IHd H2). reflexivity.
  Qed.

  Lemma PA_mono A1 A2 Rg : (forall pop ch pa, A1 pop ch pa = true -> A2 pop ch pa = true) -> forall e, PA A1 Rg e = true -> PA A2 Rg e = true.
  Proof.
    intros Hm e H. unfold PA in *. destruct (is_err e); [reflexivity|]. cbn [orb] in *. eapply all_atoms_mono; eauto.
  Qed.

  Lemma vocab_of_atoms e : all_atoms A_tr pv e = true -> trso_vocab N TARGET S0 e = true.
  Proof.
    induction e as [pop ch pa|es IH|e rs IH|n d IHn IHd| | |dm cd|k] using expr_ind'; intros H; try discriminate; try reflexivity.
    - exact H.
    - cbn [all_atoms trso_vocab] in *. rewrite forallb_forall in *. rewrite Forall_forall in IH. intros x Hx. apply IH; [exact Hx|apply H; exact Hx].
    - cbn [all_atoms trso_vocab] in *. apply andb_true_iff in H. destruct H as [H1 H2]. rewrite (IH H1), H2. reflexivity.
    - cbn [all_atoms trso_vocab] in *. apply andb_true_iff in H. destruct H as [H1 H2]. rewrite (IHn H1), (IHd H2). reflexivity.
  Qed.

  (* ---- activate_domain_and_interventions: plain terms become terms of the source domain under the active experiments ---- *)
  Section Activate.
    Variables (ivs : list nat) (k : nat) (Sd : list nat) (K : list nat).
    Hypothesis Hk : k <> TARGET.
    Hypothesis Hdom : lookup k S0 = Some Sd.
    Hypothesis Hivs : incl ivs Sd.

    Let W := norm_ivs (map to_intervention (upgrade_ordering (Vs ivs))).

    Lemma W_elems i : In i W -> In (fst i) Sd /\ snd i = false.
    Proof.
      unfold W, norm_ivs. intros Hi. apply (Permutation_in _ (Permutation_sym (stable_sort_perm _ _))) in Hi.
      apply (proj1 (In_dedup _ _)) in Hi. apply in_map_iff in Hi. destruct Hi as [v [<- Hv]].
      unfold upgrade_ordering, sorted_variables in Hv. apply (Permutation_in _ (Permutation_sym (stable_sort_perm _ _))) in Hv.
      apply (proj1 (In_dedup _ _)) in Hv. unfold Vs in Hv. apply in_map_iff in Hv. destruct Hv as [n [<- Hn]].
      cbn. split; [apply Hivs; exact Hn|reflexivity].
    Qed.

    Lemma intervened_plain x y : pv x = true -> var_intervene x (upgrade_ordering (Vs ivs)) = Some y -> world_var N W y = true /\ W <> [].
    Proof.
      intros Hx Hy. destruct (pv_fields x Hx) as [Hkx [Hsx [_ Hnx]]]. unfold var_intervene in Hy. rewrite Hkx in Hy. fold W in Hy.
      destruct W as [|w0 wt] eqn:EW; [discriminate|]. injection Hy as <-. split; [|discriminate].
      unfold world_var. cbn [vn vs vi vk]. rewrite Hsx, (proj2 (mem_In _ _) Hnx), !eqb_refl. reflexivity.
    Qed.

    Lemma activate_atom pop ch pa : A_pl K pop ch pa = true -> PA A_tr pv (activate ivs k (EProb pop ch pa)) = true.
    Proof.
      intros H. apply A_pl_spec in H. destruct H as [[k0 [-> _]] [_ [Hc Hp]]]. cbn [activate].
      destruct (diff (dedup ch) (Vs ivs)) as [|c1 ct] eqn:Ekeep; [reflexivity|]. rewrite <- Ekeep.
      unfold dist_intervene. cbn [fst snd].
      destruct (map_opt _ (upgrade_ordering (diff (dedup ch) (Vs ivs)))) as [c|] eqn:Ec; [|reflexivity].
      destruct (map_opt _ (upgrade_ordering (diff pa (Vs ivs)))) as [p|] eqn:Ep; [|reflexivity]. cbn [fst snd].
      unfold prob_raw. destruct c as [|y0 yt] eqn:Ecc; [reflexivity|]. rewrite <- Ecc in *.
      assert (Hsrc : forall l r, map_opt (fun v => var_intervene v (upgrade_ordering (Vs ivs))) (upgrade_ordering l) = Some r ->
                     forallb pv l = true -> forallb (world_var N W) r = true /\ (r <> [] -> W <> [])).
      { intros l r Hm Hl. split.
        - apply forallb_forall. intros y Hy. destruct (map_opt_spec _ _ _ Hm y Hy) as [x [Hx Hf]].
          apply (intervened_plain x y); [|exact Hf]. pose proof (forallb_upgrade' pv l Hl) as Hu. rewrite forallb_forall in Hu. apply Hu. exact Hx.
        - intros Hr. destruct r as [|y t]; [congruence|]. destruct (map_opt_spec _ _ _ Hm y (or_introl eq_refl)) as [x [Hx Hf]].
          apply (intervened_plain x y); [|exact Hf]. pose proof (forallb_upgrade' pv l Hl) as Hu. rewrite forallb_forall in Hu. apply Hu. exact Hx. }
      assert (Hkeep : forallb pv (diff (dedup ch) (Vs ivs)) = true).
      { rewrite forallb_forall in *. intros x Hx. apply In_diff in Hx. apply Hc. apply (proj1 (In_dedup _ _)). tauto. }
      assert (Hpa : forallb pv (diff pa (Vs ivs)) = true).
      { rewrite forallb_forall in *. intros x Hx. apply In_diff in Hx. apply Hp. tauto. }
      destruct (Hsrc _ _ Ec Hkeep) as [Hwc HWne]. destruct (Hsrc _ _ Ep Hpa) as [Hwp _].
      apply PA_of_atoms. cbn [all_atoms]. apply A_tr_spec. exists (V k). split; [reflexivity|]. split; [reflexivity|]. cbv zeta.
      assert (Hcne : c <> []) by (rewrite Ecc; discriminate).
      rewrite (atom_world_of c p W Hcne Hwc). split; [exact Hwc|]. split; [exact Hwp|].
      cbn [vn V]. rewrite (proj2 (Nat.eqb_neq k TARGET) Hk).
      unfold lookup in Hdom. destruct (find (fun p0 : nat * list nat => Nat.eqb (fst p0) k) S0) as [d|] eqn:Ef; [|discriminate].
      cbn in Hdom. injection Hdom as Hd. exists d. split; [reflexivity|]. apply forallb_forall. intros i Hi. destruct (W_elems i Hi) as [H1 H2].
      rewrite Hd, (proj2 (mem_In _ _) H1), H2. reflexivity.
    Qed.

    Lemma activate_vocab : forall e, PA (A_pl K) pv e = true -> PA A_tr pv (activate ivs k e) = true.
    Proof.
      induction e as [pop ch pa|es IH|e rs IH|n d IHn IHd| | |dm cd|kk] using expr_ind'; intros He; try reflexivity.
      - apply activate_atom. unfold PA in He. cbn in He. exact He.
      - cbn [activate]. apply PA_prod_safe. pose proof (PA_plain_prod _ _ _ He) as Hes.
        clear He. induction IH as [|x t Hx _ IHt]; [reflexivity|]. cbn [forallb map] in *. apply andb_true_iff in Hes. destruct Hes as [H1 H2].
        rewrite (Hx H1). apply IHt. exact H2.
      - cbn [activate]. unfold PA in He. cbn [is_err all_atoms orb] in He. apply andb_true_iff in He. destruct He as [He Hrs].
        apply PA_sum_safe_plain; [exact pv_not_bad|apply IH; apply PA_of_atoms; exact He|exact Hrs].
      - cbn [activate]. destruct (PA_frac_parts _ _ _ _ He) as [Hn Hd].
        pose proof (PA_truediv A_tr pv _ _ (IHn Hn) (IHd Hd)) as Ht.
        destruct (truediv (activate ivs k n) (activate ivs k d)) as [| |e' rs'|n' d'| | | |kk]; try reflexivity.
        + unfold PA in Ht. cbn [is_err all_atoms orb] in Ht. apply andb_true_iff in Ht. destruct Ht as [H1 H2].
          apply (PA_sum_simplify A_tr pv pv_not_bad A_tr_sub); [apply PA_of_atoms; exact H1|exact H2].
        + apply (PA_frac_simplify A_tr pv). exact Ht.
    Qed.
  End Activate.
End TrsoVocab.
