(* C19, Def. 4.2: get_ancestral_components returns a partition of the roots' ancestral sets into components that (a) cover exactly the
   variables of those sets, (b) each contain every ancestral set they meet, and (c) are separated: two different components share no vertex of
   the graph and no bidirected edge joins a vertex of one to a vertex of the other. *)
From Coq Require Import List Bool Arith Lia Relations Permutation.
From Y0 Require Import Base.ListSet Graph.MixedGraph Dsl.Syntax Dsl.Build Alg.Cg Alg.CtfAnc Proofs.SurgeryP Proofs.ComponentsP.
Import ListNotations.

Definition mg_ (comp : list (list var)) : list var := dedup (concat comp).
Definition link1 (a b : list var) : bool := negb (is_nil (inter (bases_of a) (bases_of b))).
Definition link2 (g : mg nat) (a b : list var) : bool :=
  existsb (fun e => (mem (fst e) (bases_of a) && mem (snd e) (bases_of b)) || (mem (snd e) (bases_of a) && mem (fst e) (bases_of b))) (bid g).

Lemma lbb_eq g sets a b : linked_by_bidirected false g sets a b = link2 g a b.
Proof. unfold linked_by_bidirected, link2. cbn [andb]. apply orb_false_r. Qed.

Lemma In_mg comp v : In v (mg_ comp) <-> exists A, In A comp /\ In v A.
Proof.
  unfold mg_. rewrite In_dedup, in_concat. split; intros [A [H1 H2]]; exists A; auto.
Qed.

Lemma In_bases s n : In n (bases_of s) <-> exists v, In v s /\ vn v = n.
Proof.
  unfold bases_of. rewrite In_dedup, in_map_iff. split; intros [v [H1 H2]]; exists v; auto.
Qed.

Lemma bases_mg comp n : In n (bases_of (mg_ comp)) <-> exists A, In A comp /\ In n (bases_of A).
Proof.
  rewrite In_bases. split.
  - intros [v [Hv E]]. apply In_mg in Hv. destruct Hv as [A [HA HvA]]. exists A. split; [exact HA|apply In_bases; eauto].
  - intros [A [HA Hn]]. apply In_bases in Hn. destruct Hn as [v [Hv E]]. exists v. split; [apply In_mg; eauto|exact E].
Qed.

Lemma link1_true a b : link1 a b = true <-> exists n, In n (bases_of a) /\ In n (bases_of b).
Proof.
  unfold link1. destruct (inter (bases_of a) (bases_of b)) as [|n t] eqn:E; cbn [is_nil negb]; split; try discriminate; try reflexivity.
  - intros [n [Ha Hb]]. assert (Hin : In n (inter (bases_of a) (bases_of b))) by (apply In_inter; auto). rewrite E in Hin. destruct Hin.
  - intros _. exists n. apply In_inter. rewrite E. left. reflexivity.
Qed.

Lemma link2_true g a b : link2 g a b = true <->
  exists x y, (In (x, y) (bid g) \/ In (y, x) (bid g)) /\ In x (bases_of a) /\ In y (bases_of b).
Proof.
  unfold link2. rewrite existsb_exists. split.
  - intros [[x y] [He H]]. cbn [fst snd] in H. apply orb_true_iff in H. destruct H as [H|H]; apply andb_true_iff in H; destruct H as [H1 H2]; apply mem_In in H1, H2.
    + exists x, y. split; [left; exact He|split; assumption].
    + exists y, x. split; [right; exact He|split; assumption].
  - intros [x [y [[He|He] [Hx Hy]]]].
    + exists (x, y). split; [exact He|]. cbn [fst snd]. apply orb_true_iff. left. apply andb_true_iff. split; apply mem_In; assumption.
    + exists (y, x). split; [exact He|]. cbn [fst snd]. apply orb_true_iff. right. apply andb_true_iff. split; apply mem_In; assumption.
Qed.

(* positions in a partition *)
Lemma FOP_perm {T} (R : T -> T -> Prop) (Rsym : forall x y, R x y -> R y x) l l' : Permutation l l' -> ForallOrdPairs R l -> ForallOrdPairs R l'.
Proof.
  intros Hp. induction Hp as [|x l l' Hll IH|x y l|l l' l'' _ IH1 _ IH2]; intros H.
  - constructor.
  - inversion H as [|? ? Hx Hl]; subst. constructor; [|apply IH; exact Hl]. rewrite Forall_forall in *. intros z Hz. apply Hx. eapply Permutation_in; [apply Permutation_sym; exact Hll|exact Hz].
  - inversion H as [|? ? Hy Hl]; subst. inversion Hl as [|? ? Hx Hl']; subst. inversion Hy as [|? ? Hyx Hy']; subst.
    constructor; [constructor; [apply Rsym; exact Hyx|exact Hx]|constructor; [exact Hy'|exact Hl']].
  - apply IH2. apply IH1. exact H.
Qed.

Lemma FOP_app_cross {T} (R : T -> T -> Prop) l1 l2 : ForallOrdPairs R (l1 ++ l2) -> forall x y, In x l1 -> In y l2 -> R x y.
Proof.
  induction l1 as [|a t IH]; intros H x y Hx Hy; [destruct Hx|]. cbn [app] in H. inversion H as [|? ? Ha Ht]; subst. destruct Hx as [<-|Hx].
  - rewrite Forall_forall in Ha. apply Ha. apply in_or_app. right. exact Hy.
  - apply (IH Ht x y Hx Hy).
Qed.

Lemma FOP_app_r {T} (R : T -> T -> Prop) l1 l2 : ForallOrdPairs R (l1 ++ l2) -> ForallOrdPairs R l2.
Proof. induction l1 as [|a t IH]; intros H; [exact H|]. cbn [app] in H. inversion H; subst. apply IH. assumption. Qed.

Lemma FOP_concat_cross {T} (R : T -> T -> Prop) (parts : list (list T)) : ForallOrdPairs R (concat parts) ->
  forall i j ci cj, i < j -> nth_error parts i = Some ci -> nth_error parts j = Some cj -> forall x y, In x ci -> In y cj -> R x y.
Proof.
  induction parts as [|c t IH]; intros H i j ci cj Hij Hi Hj x y Hx Hy; [destruct i; discriminate|]. cbn [concat] in H.
  destruct j as [|j]; [lia|]. cbn [nth_error] in Hj. destruct i as [|i]; cbn [nth_error] in Hi.
  - inversion Hi; subst ci. apply (FOP_app_cross R c (concat t) H x y Hx). apply in_concat. exists cj. split; [eapply nth_error_In; exact Hj|exact Hy].
  - apply (IH (FOP_app_r R c (concat t) H) i j ci cj); [lia|exact Hi|exact Hj|exact Hx|exact Hy].
Qed.


Lemma FOP_map_of_nth {T U} (h : T -> U) (Q : T -> T -> Prop) (parts : list T) :
  (forall i j ci cj, i < j -> nth_error parts i = Some ci -> nth_error parts j = Some cj -> Q ci cj) ->
  ForallOrdPairs (fun a b => exists ca cb, a = h ca /\ b = h cb /\ Q ca cb) (map h parts).
Proof.
  induction parts as [|c t IH]; intros H; cbn [map]; constructor.
  - apply Forall_forall. intros b Hb. apply in_map_iff in Hb. destruct Hb as [cb [<- Hcb]]. apply In_nth_error in Hcb. destruct Hcb as [j Hj].
    exists c, cb. split; [reflexivity|split; [reflexivity|]]. apply (H 0 (S j)); [lia|reflexivity|exact Hj].
  - apply IH. intros i j ci cj Hij Hi Hj. apply (H (S i) (S j)); [lia|exact Hi|exact Hj].
Qed.

Lemma FOP_impl {T} (R R' : T -> T -> Prop) l : (forall x y, R x y -> R' x y) -> ForallOrdPairs R l -> ForallOrdPairs R' l.
Proof.
  intros Hi H. induction H as [|a t Ha _ IH]; constructor; [|exact IH]. rewrite Forall_forall in *. intros y Hy. apply Hi. apply Ha. exact Hy.
Qed.

Section AncComp.
  Variable g : mg nat.
  Variable sets : list (list var).

  Let parts1 := components link1 (length sets) sets.
  Let M1 := map mg_ parts1.
  Let lk2 := linked_by_bidirected false g M1.
  Let parts2 := components lk2 (length M1) M1.
  Let R := map mg_ parts2.

  Lemma result_eq : merge_linked_by_bidirectional_edges false (merge_with_common_vertices sets) g = R.
  Proof. reflexivity. Qed.

  Let P1ok : parts_ok link1 sets parts1 := components_ok link1 (length sets) sets (le_n _).
  Let P2ok : parts_ok lk2 M1 parts2 := components_ok lk2 (length M1) M1 (le_n _).

  Definition bdisj (a b : list var) : Prop := forall n, In n (bases_of a) -> ~ In n (bases_of b).

  Lemma M1_disjoint : ForallOrdPairs bdisj M1.
  Proof.
    unfold M1. eapply FOP_impl; [|apply (FOP_map_of_nth mg_ (fun ca cb => forall x y, In x ca -> In y cb -> link1 x y = false) parts1)].
    - intros a b [ca [cb [-> [-> Hq]]]] n Ha Hb. apply bases_mg in Ha, Hb. destruct Ha as [A [HA HnA]]. destruct Hb as [B [HB HnB]].
      pose proof (Hq A B HA HB) as Hl. assert (Ht : link1 A B = true) by (apply link1_true; exists n; auto). congruence.
    - intros i j ci cj Hij Hi Hj x y Hx Hy. apply (parts_separate link1 sets parts1 P1ok i j ci cj Hij Hi Hj x y Hx Hy).
  Qed.

  Lemma bdisj_sym a b : bdisj a b -> bdisj b a.
  Proof. intros H n Hb Ha. apply (H n Ha Hb). Qed.

  (* (c) two different components are separated *)
  Theorem components_separated i j Ri Rj : i < j -> nth_error R i = Some Ri -> nth_error R j = Some Rj ->
    (forall n, In n (bases_of Ri) -> ~ In n (bases_of Rj)) /\
    (forall x y, In x (bases_of Ri) -> In y (bases_of Rj) -> ~ In (x, y) (bid g) /\ ~ In (y, x) (bid g)).
  Proof.
    intros Hij Hi Hj. unfold R in Hi, Hj. rewrite nth_error_map in Hi, Hj.
    destruct (nth_error parts2 i) as [ci|] eqn:Ei; [|discriminate]. destruct (nth_error parts2 j) as [cj|] eqn:Ej; [|discriminate].
    cbn [option_map] in Hi, Hj. inversion Hi; inversion Hj; subst Ri Rj. split.
    - intros n Ha Hb. apply bases_mg in Ha, Hb. destruct Ha as [M [HM HnM]]. destruct Hb as [M' [HM' HnM']].
      assert (Hfop : ForallOrdPairs bdisj (concat parts2)) by (apply (FOP_perm bdisj bdisj_sym M1 _ (parts_perm lk2 M1 parts2 P2ok) M1_disjoint)).
      apply (FOP_concat_cross bdisj parts2 Hfop i j ci cj Hij Ei Ej M M' HM HM' n HnM HnM').
    - intros x y Hx Hy. apply bases_mg in Hx, Hy. destruct Hx as [M [HM HxM]]. destruct Hy as [M' [HM' HyM']].
      pose proof (parts_separate lk2 M1 parts2 P2ok i j ci cj Hij Ei Ej M M' HM HM') as Hl. unfold lk2 in Hl. rewrite lbb_eq in Hl.
      split; intros He; assert (Ht : link2 g M M' = true) by (apply link2_true; exists x, y; auto); congruence.
  Qed.

  (* (a) the components cover exactly the variables of the ancestral sets *)
  Theorem components_cover v : In v (concat R) <-> In v (concat sets).
  Proof.
    rewrite !in_concat. split.
    - intros [Ri [HR Hv]]. unfold R in HR. apply in_map_iff in HR. destruct HR as [c2 [<- Hc2]]. apply In_mg in Hv. destruct Hv as [M [HM HvM]].
      assert (HM1 : In M M1) by (apply (Permutation_in _ (Permutation_sym (parts_perm lk2 M1 parts2 P2ok))); apply in_concat; eauto).
      unfold M1 in HM1. apply in_map_iff in HM1. destruct HM1 as [c1 [<- Hc1]]. apply In_mg in HvM. destruct HvM as [A [HA HvA]].
      exists A. split; [|exact HvA]. apply (Permutation_in _ (Permutation_sym (parts_perm link1 sets parts1 P1ok))). apply in_concat. eauto.
    - intros [A [HA Hv]]. apply (Permutation_in _ (parts_perm link1 sets parts1 P1ok)) in HA. apply in_concat in HA. destruct HA as [c1 [Hc1 HA]].
      assert (HM : In (mg_ c1) M1) by (unfold M1; apply in_map; exact Hc1).
      apply (Permutation_in _ (parts_perm lk2 M1 parts2 P2ok)) in HM. apply in_concat in HM. destruct HM as [c2 [Hc2 HM]].
      exists (mg_ c2). split; [unfold R; apply in_map; exact Hc2|]. apply In_mg. exists (mg_ c1). split; [exact HM|]. apply In_mg. eauto.
  Qed.

  (* (b) every ancestral set lies inside one component *)
  Theorem components_contain A : In A sets -> exists Ri, In Ri R /\ incl A Ri.
  Proof.
    intros HA. apply (Permutation_in _ (parts_perm link1 sets parts1 P1ok)) in HA. apply in_concat in HA. destruct HA as [c1 [Hc1 HA]].
    assert (HM : In (mg_ c1) M1) by (unfold M1; apply in_map; exact Hc1).
    apply (Permutation_in _ (parts_perm lk2 M1 parts2 P2ok)) in HM. apply in_concat in HM. destruct HM as [c2 [Hc2 HM]].
    exists (mg_ c2). split; [unfold R; apply in_map; exact Hc2|]. intros v Hv. apply In_mg. exists (mg_ c1). split; [exact HM|]. apply In_mg. eauto.
  Qed.
End AncComp.

(* the duplicate-free list of ancestral sets (sets equal as sets count once) *)
Definition distinct_sets (sets : list (list var)) : list (list var) :=
  fold_left (fun acc s => if existsb (set_eqb s) acc then acc else acc ++ [s]) sets [].

Lemma distinct_spec sets :
  incl (distinct_sets sets) sets /\ forall s, In s sets -> exists d, In d (distinct_sets sets) /\ set_eqb s d = true.
Proof.
  unfold distinct_sets.
  assert (H : forall l acc, (incl (fold_left (fun acc s => if existsb (set_eqb s) acc then acc else acc ++ [s]) l acc) (acc ++ l)) /\
                            (forall d, In d acc -> In d (fold_left (fun acc s => if existsb (set_eqb s) acc then acc else acc ++ [s]) l acc)) /\
                            (forall s, In s l -> exists d, In d (fold_left (fun acc s => if existsb (set_eqb s) acc then acc else acc ++ [s]) l acc) /\ set_eqb s d = true)).
  { induction l as [|a t IH]; intros acc; cbn [fold_left].
    - rewrite app_nil_r. split; [apply incl_refl|split; [auto|intros s []]].
    - destruct (existsb (set_eqb a) acc) eqn:E.
      + destruct (IH acc) as [H1 [H2 H3]]. split; [|split; [exact H2|]].
        * intros x Hx. apply H1 in Hx. apply in_app_or in Hx. apply in_or_app. destruct Hx; [left|right; right]; assumption.
        * intros s [<-|Hs]; [|apply H3; exact Hs]. apply existsb_exists in E. destruct E as [d [Hd Hsd]]. exists d. split; [apply H2; exact Hd|exact Hsd].
      + destruct (IH (acc ++ [a])) as [H1 [H2 H3]]. split; [|split].
        * intros x Hx. apply H1 in Hx. rewrite <- app_assoc in Hx. exact Hx.
        * intros d Hd. apply H2. apply in_or_app. left. exact Hd.
        * intros s [<-|Hs]; [|apply H3; exact Hs]. exists a. split; [apply H2; apply in_or_app; right; left; reflexivity|].
          apply set_eqb_equiv. intros x. tauto. }
  destruct (H sets []) as [H1 [_ H3]]. split; [exact H1|exact H3].
Qed.

Theorem ancestral_components_spec conds roots g comps :
  get_ancestral_components conds roots g = Some comps ->
  exists sets, map_opt (fun r => get_ancestral_set_after_intervening conds r g) roots = Some sets /\
    (forall v, In v (concat comps) <-> In v (concat sets)) /\
    (forall A, In A sets -> exists C, In C comps /\ incl A C) /\
    (forall i j Ci Cj, i < j -> nth_error comps i = Some Ci -> nth_error comps j = Some Cj ->
       (forall n, In n (bases_of Ci) -> ~ In n (bases_of Cj)) /\
       (forall x y, In x (bases_of Ci) -> In y (bases_of Cj) -> ~ In (x, y) (bid g) /\ ~ In (y, x) (bid g))).
Proof.
  unfold get_ancestral_components, get_ancestral_components_gen. destruct (map_opt _ roots) as [sets|] eqn:Em; [|discriminate].
  intros E. inversion E as [Ec]. clear E. fold (distinct_sets sets). rewrite (result_eq g (distinct_sets sets)).
  exists sets. split; [reflexivity|]. destruct (distinct_spec sets) as [Hd1 Hd2]. split; [|split].
  - intros v. rewrite (components_cover g (distinct_sets sets) v). rewrite !in_concat. split.
    + intros [d [Hd Hv]]. exists d. split; [apply Hd1; exact Hd|exact Hv].
    + intros [s [Hs Hv]]. destruct (Hd2 s Hs) as [d [Hd Hsd]]. exists d. split; [exact Hd|]. apply set_eqb_equiv in Hsd. apply Hsd. exact Hv.
  - intros A HA. destruct (Hd2 A HA) as [d [Hd Hsd]]. destruct (components_contain g (distinct_sets sets) d Hd) as [C [HC Hi]].
    exists C. split; [exact HC|]. apply set_eqb_equiv in Hsd. intros v Hv. apply Hi. apply Hsd. exact Hv.
  - intros i j Ci Cj Hij Hi Hj. apply (components_separated g (distinct_sets sets) i j Ci Cj Hij Hi Hj).
Qed.

(* (d) no over-merging: inside one component any two ancestral sets are joined by a chain of ancestral sets in which consecutive sets share a
   vertex of the graph or have a bidirected edge between their vertices *)
Section Connected.
  Variable g : mg nat.
  Variable sets : list (list var).

  Let parts1 := components link1 (length sets) sets.
  Let M1 := map mg_ parts1.
  Let lk2 := linked_by_bidirected false g M1.
  Let parts2 := components lk2 (length M1) M1.
  Let P1ok : parts_ok link1 sets parts1 := components_ok link1 (length sets) sets (le_n _).
  Let P2ok : parts_ok lk2 M1 parts2 := components_ok lk2 (length M1) M1 (le_n _).

  Definition L (a b : list var) : Prop := In a sets /\ In b sets /\ (link1 a b = true \/ link2 g a b = true).
  Definition chainL := clos_refl_sym_trans (list var) L.

  Lemma group_in_sets c1 A : In c1 parts1 -> In A c1 -> In A sets.
  Proof. intros Hc HA. apply (Permutation_in _ (Permutation_sym (parts_perm link1 sets parts1 P1ok))). apply in_concat. eauto. Qed.

  Lemma chain_in_group c1 A B : In c1 parts1 -> In A c1 -> In B c1 -> chainL A B.
  Proof.
    intros Hc HA HB. pose proof (parts_chained link1 sets parts1 c1 P1ok Hc A B HA HB) as H. clear HA HB.
    induction H as [a b [Ha [Hb Hl]]|a|a b _ IH|a b c _ IH1 _ IH2]; [apply rst_step|apply rst_refl|apply rst_sym; exact IH|eapply rst_trans; eassumption].
    repeat split; [apply (group_in_sets c1 a Hc Ha)|apply (group_in_sets c1 b Hc Hb)|left; exact Hl].
  Qed.

  Lemma link1_sym a b : link1 a b = true -> link1 b a = true.
  Proof. intros H. apply link1_true in H. destruct H as [n [H1 H2]]. apply link1_true. eauto. Qed.

  (* two groups whose merged sets are linked in the second pass contain two linked ancestral sets *)
  Lemma cross_groups c1 c1' : In c1 parts1 -> In c1' parts1 -> link2 g (mg_ c1) (mg_ c1') = true ->
    forall A B, In A c1 -> In B c1' -> chainL A B.
  Proof.
    intros Hc Hc' Hl A B HA HB. apply link2_true in Hl. destruct Hl as [x [y [He [Hx Hy]]]]. apply bases_mg in Hx, Hy.
    destruct Hx as [A0 [HA0 HxA]]. destruct Hy as [B0 [HB0 HyB]].
    eapply rst_trans; [apply (chain_in_group c1 A A0 Hc HA HA0)|]. eapply rst_trans; [|apply (chain_in_group c1' B0 B Hc' HB0 HB)].
    apply rst_step. repeat split; [apply (group_in_sets c1 A0 Hc HA0)|apply (group_in_sets c1' B0 Hc' HB0)|right; apply link2_true; exists x, y; auto].
  Qed.

  (* groups with the same merged set *)
  Lemma same_merged c1 c1' : In c1 parts1 -> In c1' parts1 -> mg_ c1 = mg_ c1' -> forall A B, In A c1 -> In B c1' -> chainL A B.
  Proof.
    intros Hc Hc' E A B HA HB. destruct A as [|a0 at_] eqn:EA.
    - (* A is empty: then so is B or we go through a vertex of B *)
      destruct B as [|b0 bt] eqn:EB; [apply rst_refl|]. rewrite <- EB in *. rewrite <- EA in *.
      assert (Hb : In b0 (mg_ c1)) by (rewrite E; apply In_mg; exists B; split; [exact HB|rewrite EB; left; reflexivity]).
      apply In_mg in Hb. destruct Hb as [A1 [HA1 Hb]]. eapply rst_trans; [apply (chain_in_group c1 A A1 Hc HA HA1)|].
      apply rst_step. repeat split; [apply (group_in_sets c1 A1 Hc HA1)|apply (group_in_sets c1' B Hc' HB)|left].
      apply link1_true. exists (vn b0). split; apply In_bases; exists b0; split; auto. rewrite EB. left. reflexivity.
    - rewrite <- EA in *. assert (Ha : In a0 (mg_ c1')) by (rewrite <- E; apply In_mg; exists A; split; [exact HA|rewrite EA; left; reflexivity]).
      apply In_mg in Ha. destruct Ha as [B1 [HB1 Ha]]. eapply rst_trans; [|apply (chain_in_group c1' B1 B Hc' HB1 HB)].
      apply rst_step. repeat split; [apply (group_in_sets c1 A Hc HA)|apply (group_in_sets c1' B1 Hc' HB1)|left].
      apply link1_true. exists (vn a0). split; apply In_bases; exists a0; split; auto. rewrite EA. left. reflexivity.
  Qed.

  Theorem component_connected c2 : In c2 parts2 ->
    forall M M' c1 c1' A B, In M c2 -> In M' c2 -> In c1 parts1 -> In c1' parts1 -> M = mg_ c1 -> M' = mg_ c1' -> In A c1 -> In B c1' -> chainL A B.
  Proof.
    intros Hc2. destruct (parts_seed lk2 M1 parts2 c2 P2ok Hc2) as [S [HS Hch]].
    assert (Hmem : forall X, In X c2 -> exists d, In d parts1 /\ X = mg_ d /\ exists Cx, In Cx d).
    { intros X HX. assert (HX1 : In X M1) by (apply (Permutation_in _ (Permutation_sym (parts_perm lk2 M1 parts2 P2ok))); apply in_concat; exists c2; auto).
      unfold M1 in HX1. apply in_map_iff in HX1. destruct HX1 as [d [<- Hd]]. exists d. split; [exact Hd|split; [reflexivity|]].
      destruct (parts_seed link1 sets parts1 d P1ok Hd) as [s0 [Hs0 _]]. exists s0. exact Hs0. }
    assert (Hgen : forall X Y, clos_refl_trans_1n _ (fun a b => In a c2 /\ In b c2 /\ lk2 a b = true) X Y ->
              forall d d' A' B', In d parts1 -> In d' parts1 -> X = mg_ d -> Y = mg_ d' -> In A' d -> In B' d' -> chainL A' B').
    { intros X Y H. induction H as [X|X Z Y [HX [HZ Hl]] _ IH]; intros d d' A' B' Hd Hd' E1 E2 HA' HB'.
      - apply (same_merged d d' Hd Hd'); [congruence|exact HA'|exact HB'].
      - destruct (Hmem Z HZ) as [dz [Hdz [Ez [Cz HCz]]]]. eapply rst_trans.
        + apply (cross_groups d dz Hd Hdz); [rewrite <- E1, <- Ez; unfold lk2 in Hl; rewrite lbb_eq in Hl; exact Hl|exact HA'|exact HCz].
        + apply (IH dz d' Cz B' Hdz Hd' Ez E2 HCz HB'). }
    intros M M' c1 c1' A B HM HM' Hc1 Hc1' EM EM' HA HB.
    destruct (Hmem S HS) as [ds [Hds [Es [Cs HCs]]]].
    pose proof (Hgen S M (clos_rt_rt1n _ _ _ _ (Hch M HM)) ds c1 Cs A Hds Hc1 Es EM HCs HA) as H1.
    pose proof (Hgen S M' (clos_rt_rt1n _ _ _ _ (Hch M' HM')) ds c1' Cs B Hds Hc1' Es EM' HCs HB) as H2.
    eapply rst_trans; [apply rst_sym; exact H1|exact H2].
  Qed.
End Connected.

Theorem ancestral_components_connected conds roots g comps sets :
  map_opt (fun r => get_ancestral_set_after_intervening conds r g) roots = Some sets ->
  get_ancestral_components conds roots g = Some comps ->
  forall C, In C comps -> exists F : list var -> Prop,
    (forall A, F A -> In A (distinct_sets sets)) /\
    (forall v, In v C <-> exists A, F A /\ In v A) /\
    (forall A B, F A -> F B -> chainL g (distinct_sets sets) A B).
Proof.
  intros Em. unfold get_ancestral_components, get_ancestral_components_gen. rewrite Em. intros E. inversion E as [Ec]. clear E.
  fold (distinct_sets sets). set (D := distinct_sets sets). rewrite (result_eq g D).
  set (parts1 := components link1 (length D) D). set (M1 := map mg_ parts1). set (lk2 := linked_by_bidirected false g M1).
  set (parts2 := components lk2 (length M1) M1).
  pose proof (components_ok link1 (length D) D (le_n _)) as P1ok. pose proof (components_ok lk2 (length M1) M1 (le_n _)) as P2ok. fold parts1 in P1ok. fold parts2 in P2ok.
  intros C HC. apply in_map_iff in HC. destruct HC as [c2 [<- Hc2]].
  exists (fun A => exists M c1, In M c2 /\ In c1 parts1 /\ M = mg_ c1 /\ In A c1). split; [|split].
  - intros A [M [c1 [_ [Hc1 [_ HA]]]]]. apply (Permutation_in _ (Permutation_sym (parts_perm link1 D parts1 P1ok))). apply in_concat. eauto.
  - intros v. rewrite In_mg. split.
    + intros [M [HM Hv]]. assert (HM1 : In M M1) by (apply (Permutation_in _ (Permutation_sym (parts_perm lk2 M1 parts2 P2ok))); apply in_concat; exists c2; auto).
      unfold M1 in HM1. apply in_map_iff in HM1. destruct HM1 as [c1 [E1 Hc1]]. subst M. apply In_mg in Hv. destruct Hv as [A [HA HvA]].
      exists A. split; [exists (mg_ c1), c1; auto|exact HvA].
    + intros [A [[M [c1 [HM [Hc1 [-> HA]]]]] Hv]]. exists (mg_ c1). split; [exact HM|apply In_mg; eauto].
  - intros A B [M [c1 [HM [Hc1 [EM HA]]]]] [M' [c1' [HM' [Hc1' [EM' HB]]]]].
    apply (component_connected g D c2 Hc2 M M' c1 c1' A B HM HM' Hc1 Hc1' EM EM' HA HB).
Qed.
