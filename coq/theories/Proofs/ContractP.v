(* C13: recursive_contract - the traversal that contracts every quotient of two joint probabilities inside sums and products -
   preserves the meaning of the expression in every lawful model. *)
From Coq Require Import List Bool Arith QArith Permutation Lia.
From Y0 Require Import Base.ListSet Graph.MixedGraph Dsl.Syntax Dsl.Text Dsl.Build Dsl.Canon Dsl.Sem Dsl.Laws Proofs.SurgeryP
  Proofs.ExprP Proofs.SemP Proofs.ChainP.
Import ListNotations.
Open Scope Q_scope.

(* what the traversal is applied to: sums over non-empty ranges of plain variables; quotients of two parent-less terms list each
   variable once *)
Fixpoint wfc (e : expr) : bool :=
  match e with
  | ESum e' rs => wfc e' && negb (is_nil rs) && negb (existsb bad_range rs)
  | EProd es => forallb wfc es
  | EFrac (EProb _ nch []) (EProb _ dch []) => nodupb nch && nodupb dch && negb (is_nil dch)
  | _ => true
  end.

Section ContractP.
  Variable m : model.
  Hypothesis Hlaw : lawful m.

  Lemma eval_contract_any e r : wfc e = true -> is_err (contract e) = false -> eval m (contract e) r == eval m e r.
  Proof.
    intros Hw Hne. destruct e as [| | |n d| | | |]; try reflexivity.
    destruct n as [pop nch npa| | | | | | |]; try reflexivity. destruct npa; [|reflexivity].
    destruct d as [pop' dch dpa| | | | | | |]; try reflexivity. destruct dpa; [|reflexivity].
    cbn [wfc] in Hw. apply andb_true_iff in Hw. destruct Hw as [Hw Hd0]. apply andb_true_iff in Hw. destruct Hw as [Hn Hd].
    apply nodupb_NoDup in Hn, Hd. assert (Hdne : dch <> []) by (destruct dch; [discriminate|discriminate]).
    destruct (eqb pop pop') eqn:Ep.
    - apply eqb_true in Ep. subst pop'. rewrite (eval_contract m Hlaw pop nch dch r Hn Hd Hdne Hne). reflexivity.
    - cbn [contract]. rewrite Ep. reflexivity.
  Qed.

  Theorem eval_recursive_contract : forall e, wfc e = true -> is_err (recursive_contract e) = false ->
    forall r, eval m (recursive_contract e) r == eval m e r.
  Proof.
    induction e as [pop ch pa|es IH|e rs IH|n d _ _| | |dm cd|k] using expr_ind'; intros Hw Hne r; try reflexivity.
    - (* product *)
      cbn [recursive_contract] in *. cbn [wfc] in Hw. rewrite forallb_forall in Hw. rewrite Forall_forall in IH.
      rewrite eval_prod_safe, eval_prod.
      assert (Hok : forall x, In x es -> is_err (recursive_contract x) = false).
      { intros x Hx. destruct (is_err (recursive_contract x)) eqn:E; [|reflexivity]. exfalso.
        unfold prod_safe, prod_safe_gen, first_err in Hne. destruct (find is_err (map recursive_contract es)) as [e0|] eqn:Ef.
        - apply find_some in Ef. destruct Ef as [_ Ef]. congruence.
        - pose proof (find_none _ _ Ef (recursive_contract x) ltac:(apply in_map; exact Hx)) as Hn. congruence. }
      clear Hne. induction es as [|a t IHt]; [reflexivity|]. cbn [map eval_list qprod fold_right].
      rewrite (IH a (or_introl eq_refl) (Hw a (or_introl eq_refl)) (Hok a (or_introl eq_refl)) r). apply Qmult_comp; [reflexivity|].
      apply IHt; intros x Hx; [apply IH|apply Hw|apply Hok]; right; exact Hx.
    - (* sum *)
      cbn [recursive_contract] in *. cbn [wfc] in Hw. apply andb_true_iff in Hw. destruct Hw as [Hw Hb]. apply andb_true_iff in Hw. destruct Hw as [Hw Hr].
      apply negb_true_iff in Hb. unfold sum_raw in *. destruct (is_err (recursive_contract e)) eqn:Ee; [congruence|].
      destruct rs as [|r0 rt]; [discriminate|]. rewrite Hb in *. cbn [eval]. apply sum_over_ext. intros r'. apply IH; assumption.
    - (* fraction *)
      cbn [recursive_contract] in *. apply eval_contract_any; assumption.
  Qed.
End ContractP.
