(* C20: on an acyclic directed mixed graph the sigma-separation test agrees with m-separation (hence, by C04, with the
   textbook d-separation). Part 1: a sigma-open path yields an active walk. *)
From Coq Require Import List Bool Arith Lia Relations.
From Y0 Require Import Base.ListSet Graph.Closure Graph.Paths Graph.MixedGraph Graph.DSep Graph.MSep Graph.Sigma
  Proofs.ClosureP Proofs.SurgeryP Proofs.SigmaP Proofs.MSepP Proofs.MSepPathP Proofs.MSepShortP Proofs.KahnP.
Import ListNotations.

Lemma rt_cases {T} (R : T -> T -> Prop) x y : clos_refl_trans T R x y -> x = y \/ clos_trans T R x y.
Proof.
  intros Hr. induction Hr as [x y Hxy|x|x y z _ IH1 _ IH2]; [right; apply t_step; exact Hxy|left; reflexivity|].
  destruct IH1 as [->|H1]; [exact IH2|]. destruct IH2 as [<-|H2]; [right; exact H1|right; eapply t_trans; eassumption].
Qed.

Lemma spaths_nodup_gen {A} `{EqB A} (ns : list A) es a b p : In p (all_simple_paths_und ns es a b) -> NoDup p.
Proof.
  unfold all_simple_paths_und. generalize (length ns). intros fuel.
  assert (Hgen : forall fuel path_rev cur p, NoDup (cur :: path_rev) -> In p (spaths fuel (und_adj es) path_rev cur b) -> NoDup p).
  { clear. induction fuel as [|f IH]; intros path_rev cur p Hnd Hp; cbn [spaths] in Hp.
    - destruct (eqb cur b); [|destruct Hp]. destruct Hp as [<-|[]]. apply NoDup_rev. exact Hnd.
    - destruct (eqb cur b); [destruct Hp as [<-|[]]; apply NoDup_rev; exact Hnd|].
      apply in_flat_map in Hp. destruct Hp as [n [_ Hp]]. destruct (mem n (cur :: path_rev)) eqn:Em; [destruct Hp|].
      apply (IH (cur :: path_rev) n p); [|exact Hp]. constructor; [apply mem_false; exact Em|exact Hnd]. }
  apply Hgen. constructor; [intros []|constructor].
Qed.

Section SigmaWalk.
  Context {A : Type} `{EqB A}.
  Notation mg := (mg A).
  Variable g : mg.
  Variables (a : A) (C : list A).
  Hypothesis a_notin : ~ In a C.
  Hypothesis acyc : forall v, ~ clos_trans A (fun x y => In (x, y) (dir g)) v v.

  Notation R := (mreach g C a).
  Notation th l m r := (triple_helper false g l m r C).

  Lemma no2 u v : In (u, v) (dir g) -> In (v, u) (dir g) -> False.
  Proof. intros H1 H2. apply (acyc u). eapply t_trans; apply t_step; eassumption. Qed.

  Lemma he_spec l m : has_either_edge g l m = true <-> In (l, m) (dir g) \/ In (l, m) (bid g) \/ In (m, l) (bid g).
  Proof. unfold has_either_edge, umem. cbn [swap fst snd]. rewrite !orb_true_iff, !mem_In. tauto. Qed.

  Lemma od_spec m l : only_directed_edge false g m l = true <-> In (m, l) (dir g).
  Proof. unfold only_directed_edge. rewrite andb_true_r. apply mem_In. Qed.

  Lemma class_trivial m l : mem m (sigma_class g l) = true -> m = l.
  Proof.
    unfold sigma_class. rewrite mem_In, In_inter. intros [H1 H2].
    apply ancestors_inclusive_spec in H1. apply descendants_inclusive_spec in H2.
    destruct H1 as [s [[<-|[]] Hml]]. destruct H2 as [s [[<-|[]] Hlm]].
    destruct (rt_cases _ _ _ Hml) as [E|Hml']; [exact E|]. destruct (rt_cases _ _ _ Hlm) as [E|Hlm']; [symmetry; exact E|].
    exfalso. apply (acyc m). eapply t_trans; eassumption.
  Qed.

  (* the edge between l and m has mark mu at m *)
  Definition adm (l m : A) (mu : mark) : Prop :=
    match mu with Head => has_either_edge g l m = true | Tail => only_directed_edge false g m l = true end.
  Definition act (m : A) (mi mo : mark) : Prop :=
    match mi, mo with Head, Head => exists c, In c C /\ dpath g m c | _, _ => ~ In m C end.
  Definition disj (l m r : A) (mi mo : mark) : Prop := adm l m mi /\ adm r m mo /\ act m mi mo.

  Lemma cond_class m l : l <> m -> cond_or_class g m C [sigma_class g l] = true -> ~ In m C.
  Proof.
    unfold cond_or_class. cbn [forallb]. rewrite andb_true_r. intros Hne Hc. apply orb_true_iff in Hc.
    destruct Hc as [Hc|Hc]; [apply negb_true_iff, mem_false in Hc; exact Hc|]. apply class_trivial in Hc. congruence.
  Qed.

  Lemma th_disj l m r : l <> m -> r <> m -> th l m r = true -> exists mi mo, disj l m r mi mo.
  Proof.
    intros Hl Hr Ht. unfold triple_helper in Ht. rewrite !orb_true_iff in Ht. destruct Ht as [[[Ht|Ht]|Ht]|Ht].
    - unfold Sigma.is_collider in Ht. rewrite !andb_true_iff in Ht. destruct Ht as [[H1 H2] H3]. exists Head, Head. split; [exact H1|]. split; [exact H2|].
      apply existsb_exists in H3. destruct H3 as [c [Hc Hd]]. exists c. split; [exact Hc|]. apply mem_In in Hd.
      apply descendants_inclusive_spec in Hd. destruct Hd as [s [[<-|[]] Hd]]. exact Hd.
    - unfold is_non_collider_left_chain in Ht. rewrite !andb_true_iff in Ht. destruct Ht as [[H1 H2] H3]. exists Tail, Head.
      split; [exact H1|]. split; [exact H2|]. apply (cond_class m l Hl H3).
    - unfold is_non_collider_right_chain in Ht. rewrite !andb_true_iff in Ht. destruct Ht as [[H1 H2] H3]. exists Head, Tail.
      split; [exact H1|]. split; [exact H2|]. apply (cond_class m r Hr H3).
    - unfold is_non_collider_fork in Ht. rewrite !andb_true_iff in Ht. destruct Ht as [[H1 H2] H3]. exists Tail, Tail.
      split; [exact H1|]. split; [exact H2|]. unfold cond_or_class in H3. cbn [forallb] in H3. rewrite andb_true_r in H3.
      apply orb_true_iff in H3. destruct H3 as [H3|H3]; [apply negb_true_iff, mem_false in H3; exact H3|].
      apply andb_true_iff in H3. destruct H3 as [H3 _]. apply class_trivial in H3. congruence.
  Qed.

  Lemma disj_th l m r mi mo : disj l m r mi mo -> th l m r = true.
  Proof.
    intros [H1 [H2 H3]]. unfold triple_helper. destruct mi, mo; cbn [adm act] in *.
    - apply orb_true_iff. left. apply orb_true_iff. left. apply orb_true_iff. left.
      unfold Sigma.is_collider. rewrite H1, H2. cbn [andb]. destruct H3 as [c [Hc Hd]]. apply existsb_exists. exists c. split; [exact Hc|].
      apply mem_In. apply descendants_inclusive_spec. exists m. split; [left; reflexivity|exact Hd].
    - apply orb_true_iff. left. apply orb_true_iff. right.
      unfold is_non_collider_right_chain, cond_or_class. rewrite H1, H2, (proj2 (mem_false _ _) H3). reflexivity.
    - apply orb_true_iff. left. apply orb_true_iff. left. apply orb_true_iff. right.
      unfold is_non_collider_left_chain, cond_or_class. rewrite H1, H2, (proj2 (mem_false _ _) H3). reflexivity.
    - apply orb_true_iff. right.
      unfold is_non_collider_fork, cond_or_class. rewrite H1, H2, (proj2 (mem_false _ _) H3). reflexivity.
  Qed.

  (* an edge with the wanted marks at both ends exists *)
  Lemma edge_with_marks x z mo mi : adm z x mo -> adm x z mi -> mstep g x mo mi z.
  Proof.
    destruct mo, mi; cbn [adm]; rewrite ?he_spec, ?od_spec; intros H1 H2.
    - destruct H1 as [H1|[H1|H1]]; [|apply st_bi2; exact H1|apply st_bi1; exact H1].
      destruct H2 as [H2|[H2|H2]]; [exfalso; exact (no2 _ _ H1 H2)|apply st_bi1; exact H2|apply st_bi2; exact H2].
    - apply st_bwd. exact H2.
    - apply st_fwd. exact H1.
    - exfalso. exact (no2 _ _ H1 H2).
  Qed.

  Lemma some_edge_out x z mo : adm z x mo -> exists mz, mstep g x mo mz z.
  Proof.
    destruct mo; cbn [adm]; rewrite ?he_spec, ?od_spec; intros H1.
    - destruct H1 as [H1|[H1|H1]]; [exists Tail; apply st_bwd; exact H1|exists Head; apply st_bi2; exact H1|exists Head; apply st_bi1; exact H1].
    - exists Head. apply st_fwd. exact H1.
  Qed.

  Lemma ready x mu mo : R x mu -> act x mu mo -> exists mu', R x mu' /\ pass C x mu' mo.
  Proof.
    intros Hr Ha. destruct mu, mo; cbn [act] in Ha; try (exists mu; split; [exact Hr|exact Ha]); try (eexists; split; [exact Hr|exact Ha]).
    destruct Ha as [c [Hc Hd]]. destruct (in_C_dec C x) as [HxC|HxC]; [exists Head; split; [exact Hr|exact HxC]|].
    destruct (dpath_split g C x c Hd) as [y [Hy Hyc]].
    assert (HyC : In y C) by (destruct Hyc as [->|Hyc]; assumption).
    exists Tail. split; [eapply bounce; eauto|exact HxC].
  Qed.

  Lemma advance x mu mo mi z : R x mu -> act x mu mo -> adm z x mo -> adm x z mi -> R z mi.
  Proof.
    intros Hr Ha H1 H2. destruct (ready x mu mo Hr Ha) as [mu' [Hr' Hp]].
    eapply mr_step; [exact Hr'|apply edge_with_marks; eassumption|exact Hp].
  Qed.

  (* a walk all of whose consecutive triples are sigma-open in the direct way *)
  Fixpoint thw (p : list A) : Prop :=
    match p with
    | l :: t => match t with
                | m :: r :: _ => th l m r = true /\ l <> m /\ r <> m /\ thw t
                | _ => True
                end
    | [] => True
    end.

  Lemma follow : forall rest prev x mu b,
    thw (prev :: x :: rest) -> R x mu ->
    (match rest with z :: _ => exists mo, disj prev x z mu mo | [] => True end) ->
    last_is b (x :: rest) -> exists m', R b m'.
  Proof.
    induction rest as [|z rest IH]; intros prev x mu b Hw Hr Hd Hl.
    - apply last_is_one in Hl. subst. eexists; exact Hr.
    - destruct Hd as [mo [_ [Hadm Hact]]]. apply last_is_cons in Hl.
      destruct rest as [|w rest'].
      + apply last_is_one in Hl. subst b. destruct (ready x mu mo Hr Hact) as [mu' [Hr' Hp]].
        destruct (some_edge_out x z mo Hadm) as [mz Hs]. exists mz. eapply mr_step; eauto.
      + cbn [thw] in Hw. destruct Hw as [_ [_ [_ Hw']]]. pose proof Hw' as [Ht [Hxz [Hwz _]]].
        destruct (th_disj x z w Hxz Hwz Ht) as [mi [mo' Hdz]]. pose proof Hdz as [Hin _].
        apply (IH x z mi b Hw'); [eapply advance; eauto|exists mo'; exact Hdz|exact Hl].
  Qed.

  Lemma thw_connected p b : thw p -> chainA (und_adj (dir g ++ bid g)) p -> hd_error p = Some a -> last_is b p -> m_connected g C a b.
  Proof.
    intros Hw Hch Hhd Hl. destruct p as [|a' rest]; [discriminate|]. cbn in Hhd. injection Hhd as ->.
    destruct rest as [|x1 rest].
    - apply last_is_one in Hl. subst. exists Tail. constructor.
    - inversion Hch as [|? ? ? Hadj _]; subst. apply In_und_adj in Hadj. rewrite !in_app_iff in Hadj.
      destruct rest as [|x2 rest'].
      + apply last_is_cons, last_is_one in Hl. subst b.
        destruct Hadj as [[Hd|Hb]|[Hd|Hb]]; eexists; (eapply mr_step; [apply mr_start| |exact a_notin]);
          [apply st_fwd|apply st_bi1|apply st_bwd|apply st_bi2]; eassumption.
      + pose proof Hw as [Ht [Hax [Hx2 _]]]. destruct (th_disj a x1 x2 Hax Hx2 Ht) as [mi [mo Hd1]]. pose proof Hd1 as [Hin _].
        apply (follow (x2 :: rest') a x1 mi b Hw); [|exists mo; exact Hd1|eapply last_is_cons; exact Hl].
        destruct mi; cbn [adm] in Hin.
        * apply he_spec in Hin. destruct Hin as [Hi|[Hi|Hi]]; (eapply mr_step; [apply mr_start| |exact a_notin]); [apply st_fwd|apply st_bi1|apply st_bi2]; exact Hi.
        * apply od_spec in Hin. eapply mr_step; [apply mr_start|apply st_bwd; exact Hin|exact a_notin].
  Qed.

  (* a sigma-open path, whose triples may use the detour through a neighbour, expands into such a walk *)
  Notation adjs := (und_adj (dir g ++ bid g)).

  Lemma adj_sym x y : In y (adjs x) -> In x (adjs y).
  Proof. intros Hx. apply In_und_adj. apply In_und_adj in Hx. tauto. Qed.

  Lemma expand : forall p, NoDup p -> triples_all false g C p = true -> chainA adjs p ->
    exists p', thw p' /\ chainA adjs p' /\ (forall b, last_is b p -> last_is b p') /\ firstn 2 p' = firstn 2 p.
  Proof.
    induction p as [|l t IH]; intros Hnd Ht Hch; [exists []; repeat split; auto|].
    destruct t as [|m [|r t']].
    - exists [l]. repeat split; auto.
    - exists [l; m]. repeat split; auto.
    - change (triples_all false g C (l :: m :: r :: t')) with (triple_has_correct_form false g l m r C && triples_all false g C (m :: r :: t')) in Ht.
      apply andb_true_iff in Ht. destruct Ht as [Hf Ht]. inversion Hnd as [|? ? Hl Hnd']; subst. inversion Hch as [|? ? ? Hlm Hch']; subst.
      destruct (IH Hnd' Ht Hch') as [q [Hwq [Hcq [Hlq Hfq]]]].
      destruct q as [|q0 [|q1 q']]; try discriminate. cbn [firstn] in Hfq. injection Hfq as -> ->.
      assert (Hlm' : l <> m) by (intros ->; apply Hl; left; reflexivity).
      assert (Hrm : r <> m) by (intros ->; inversion Hnd' as [|? ? Hm _]; apply Hm; left; reflexivity).
      unfold triple_has_correct_form in Hf. apply orb_true_iff in Hf. destruct Hf as [Hf|Hf].
      + exists (l :: m :: r :: q'). split; [cbn [thw]; repeat split; auto|]. split; [constructor; assumption|]. split; [|reflexivity].
        intros b Hb. apply last_is_cons in Hb. apply Hlq in Hb. destruct Hb as [pre ->]. exists (l :: pre). reflexivity.
      + apply existsb_exists in Hf. destruct Hf as [n [Hn Hf]]. rewrite !andb_true_iff in Hf. destruct Hf as [[H1 H2] H3].
        unfold dis_neighbors in Hn. apply filter_In in Hn. destruct Hn as [Hadj Hnm]. apply negb_true_iff in Hnm. apply eqb_neq in Hnm.
        assert (Hmn : m <> n) by (intros E; apply Hnm; symmetry; exact E).
        exists (l :: m :: n :: m :: r :: q'). split.
        * cbn [thw] in Hwq |- *. repeat split; auto; apply Hwq.
        * split; [constructor; [exact Hlm|]; constructor; [exact Hadj|]; constructor; [apply adj_sym; exact Hadj|exact Hcq]|]. split; [|reflexivity].
          intros b Hb. apply last_is_cons in Hb. apply Hlq in Hb. destruct Hb as [pre ->]. exists (l :: m :: n :: pre). reflexivity.
  Qed.

  Theorem sigma_open_connected p b :
    In p (all_simple_paths_und (nodes g) (dir g ++ bid g) a b) -> is_z_sigma_open false g C p = true -> m_connected g C a b.
  Proof.
    intros Hp Ho. pose proof (spaths_nodup_gen _ _ _ _ _ Hp) as Hnd.
    unfold all_simple_paths_und in Hp. apply spaths_sound in Hp. destruct Hp as [suf [-> [Hch Hl]]]. cbn [rev app] in *.
    unfold is_z_sigma_open in Ho. rewrite !andb_true_iff in Ho. destruct Ho as [_ Ht].
    destruct (expand (a :: suf) Hnd Ht Hch) as [p' [Hw [Hc' [Hl' Hf']]]].
    apply (thw_connected p' b Hw Hc'); [|apply Hl'; exact Hl].
    destruct p' as [|x t]; [destruct suf; discriminate|]. cbn [firstn] in Hf'. destruct t, suf; cbn in Hf'; injection Hf' as ->; reflexivity.
  Qed.
End SigmaWalk.
