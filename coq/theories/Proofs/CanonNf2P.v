(* C11, part 2: every non-error result of the canonicalizer has the canonical shape [NF] - products, quotients. *)
From Coq Require Import List Bool Arith Lia Permutation Sorted String.
From Y0 Require Import Base.ListSet Dsl.Syntax Dsl.Text Dsl.Print Dsl.Build Dsl.Canon
  Proofs.SortP Proofs.ExprP Proofs.SurgeryP Proofs.SumSimpP Proofs.LawP Proofs.OrderP Proofs.CanonNfP.
Import ListNotations.
Open Scope list_scope.

Section Nf2.
  Variable o : list var.
  Notation NF := (NF o).

  Lemma atomic_facts x : atomic x = true -> notprod x = true /\ is_one x = false /\ is_zero x = false /\ is_err x = false.
  Proof. destruct x; cbn; intros; try discriminate; auto. Qed.

  (* ---------------------------------------------------------------- Product.safe *)
  Theorem nf_prod_safe l : Forall (fun f => NF f /\ notprod f = true) l -> NF (prod_safe l).
  Proof.
    intros Hl. rewrite Forall_forall in Hl. unfold prod_safe, prod_safe_gen, first_err.
    rewrite find_none_all; [|intros x Hx; apply (NF_not_err o); apply Hl; exact Hx].
    remember (filter (fun e => negb (is_one e)) l) as es1 eqn:E1.
    destruct (existsb is_zero es1) eqn:Ez; [constructor|].
    assert (H1 : forall x, In x es1 -> NF x /\ atomic x = true).
    { intros x Hx. assert (Hz : is_zero x = false).
      { destruct (is_zero x) eqn:E; [|reflexivity]. assert (existsb is_zero es1 = true) by (apply existsb_exists; exists x; auto). congruence. }
      rewrite E1 in Hx. apply filter_In in Hx. destruct Hx as [Hx Hone]. destruct (Hl x Hx) as [Hn Hp]. split; [exact Hn|].
      destruct x; try discriminate; try reflexivity; inversion Hn. }
    destruct es1 as [|x [|y t]] eqn:E; [constructor|apply H1; left; reflexivity|]. rewrite <- E in *.
    assert (Hperm := stable_sort_perm expr_lt es1).
    constructor.
    - rewrite <- (Permutation_length Hperm). rewrite E. cbn [List.length]. lia.
    - apply Forall_forall. intros z Hz. apply H1. eapply Permutation_in; [apply Permutation_sym; exact Hperm|exact Hz].
    - apply forallb_forall. intros z Hz. apply H1. eapply Permutation_in; [apply Permutation_sym; exact Hperm|exact Hz].
    - apply stable_sort_sorted; [exact expr_lt_irrefl|exact expr_lt_trans].
  Qed.

  (* ---------------------------------------------------------------- multiplication of fraction-free canonical forms *)
  Definition fl (a : expr) : list expr := match a with EProd fs => fs | EOne => [] | _ => [a] end.

  Lemma fl_atomic a : NF a -> nofrac a = true -> is_zero a = false -> Forall (fun f => NF f /\ atomic f = true) (fl a).
  Proof.
    intros Ha Hf Hz. destruct a; try discriminate; cbn [fl]; try (constructor; [split; [exact Ha|reflexivity]|constructor]); try constructor; try (inversion Ha; fail).
    inversion Ha as [|fs Hlen Hall Hat Hs| | | |]; subst. rewrite Forall_forall in *. rewrite forallb_forall in Hat. intros x Hx. split; auto.
  Qed.

  Lemma fl_nil a : NF a -> nofrac a = true -> is_zero a = false -> fl a = [] -> is_one a = true.
  Proof.
    intros Ha Hf Hz E. destruct a; try discriminate; try reflexivity.
    cbn [fl] in E. subst. inversion Ha as [|fs Hlen _ _ _| | | |]; subst. cbn in Hlen. lia.
  Qed.

  Lemma fl_single a x : NF a -> fl a = [x] -> a = x.
  Proof.
    intros Ha E. destruct a; cbn [fl] in E; try (injection E as <-; reflexivity); try discriminate.
    subst. inversion Ha as [|fs Hlen _ _ _| | | |]; subst. cbn in Hlen. lia.
  Qed.

  Lemma find_app_one (l : list expr) : find is_err (l ++ [EOne]) = find is_err l.
  Proof. induction l as [|a t IH]; [reflexivity|]. cbn [app find]. destruct (is_err a); [reflexivity|exact IH]. Qed.

  Lemma prod_safe_app_one l : prod_safe (l ++ [EOne]) = prod_safe l.
  Proof.
    unfold prod_safe, prod_safe_gen, first_err. rewrite find_app_one. rewrite filter_app. cbn [filter is_one negb]. rewrite app_nil_r. reflexivity.
  Qed.

  Lemma mul_fl a b : NF a -> NF b -> nofrac a = true -> nofrac b = true -> is_zero a = false -> is_zero b = false ->
    mul a b = prod_safe (fl a ++ fl b).
  Proof.
    intros Ha Hb Hfa Hfb Hza Hzb.
    destruct a; try discriminate; try (inversion Ha; fail); destruct b; try discriminate; try (inversion Hb; fail); cbn [fl app];
      try reflexivity.
    - (* product * One *) cbn [mul]. rewrite app_nil_r. apply prod_safe_app_one.
    - (* One * product *) cbn [mul]. symmetry. apply prod_safe_nf_prod with (o := o). exact Hb.
  Qed.

  Lemma forallb_atomic l : Forall (fun f => NF f /\ atomic f = true) l -> forallb atomic l = true.
  Proof. intros H. apply forallb_forall. rewrite Forall_forall in H. intros x Hx. apply H. exact Hx. Qed.

  Theorem nf_mul a b : NF a -> NF b -> nofrac a = true -> nofrac b = true -> is_zero a = false -> is_zero b = false ->
    NF (mul a b) /\ nofrac (mul a b) = true /\ is_zero (mul a b) = false /\
    (is_one a = false -> is_one (mul a b) = false) /\ (is_one b = false -> is_one (mul a b) = false).
  Proof.
    intros Ha Hb Hfa Hfb Hza Hzb. rewrite (mul_fl a b Ha Hb Hfa Hfb Hza Hzb).
    pose proof (fl_atomic a Ha Hfa Hza) as Fa. pose proof (fl_atomic b Hb Hfb Hzb) as Fb.
    assert (Fab : Forall (fun f => NF f /\ atomic f = true) (fl a ++ fl b)) by (apply Forall_app; split; assumption).
    split.
    { apply nf_prod_safe. rewrite Forall_forall in *. intros x Hx. destruct (Fab x Hx) as [Hn Hat]. split; [exact Hn|]. apply atomic_facts. exact Hat. }
    rewrite (prod_safe_atomic (fl a ++ fl b) (forallb_atomic _ Fab)).
    destruct (fl a ++ fl b) as [|x [|y t]] eqn:El.
    - apply app_eq_nil in El. destruct El as [Ea Eb].
      rewrite (fl_nil a Ha Hfa Hza Ea), (fl_nil b Hb Hfb Hzb Eb). repeat split; try reflexivity; intros; discriminate.
    - assert (Hx : atomic x = true) by (rewrite Forall_forall in Fab; apply Fab; left; reflexivity).
      destruct (atomic_facts x Hx) as [_ [H1 [Hz _]]].
      assert (Hfx : nofrac x = true).
      { apply app_eq_unit in El. destruct El as [[Ea Eb]|[Ea Eb]].
        - rewrite <- (fl_single b x Hb Eb). exact Hfb.
        - rewrite <- (fl_single a x Ha Ea). exact Hfa. }
      repeat split; auto.
    - repeat split; reflexivity.
  Qed.

  (* ---------------------------------------------------------------- division of canonical forms *)
  Lemma truediv_one x : truediv x EOne = x.
  Proof. destruct x; reflexivity. Qed.

  Lemma truediv_by_frac n a' b' : is_err n = false -> is_zero n = false -> nofrac n = true ->
    truediv n (EFrac a' b') = truediv (mul n b') a'.
  Proof. destruct n; intros; try discriminate; reflexivity. Qed.

  Lemma truediv_of_frac a b d : is_err d = false -> is_one d = false -> nofrac d = true ->
    truediv (EFrac a b) d = mk_frac a (mul b d).
  Proof. destruct d; intros; try discriminate; reflexivity. Qed.

  Lemma mk_frac_ok N D : is_err N = false -> is_err D = false -> is_zero D = false -> mk_frac N D = EFrac N D.
  Proof. intros H1 H2 H3. unfold mk_frac, first_err. cbn [find]. rewrite H1, H2, H3. reflexivity. Qed.

  Lemma nf_post_frac N D : NF N -> NF D -> nofrac N = true -> nofrac D = true -> is_zero N = false -> is_one D = false -> is_zero D = false ->
    NF (post_quotient (EFrac N D)).
  Proof.
    intros. cbn [post_quotient]. destruct (expr_eqb N D) eqn:E; [constructor|]. constructor; assumption.
  Qed.

  Lemma mul_zero_r b : NF b -> nofrac b = true -> mul b EZero = EZero.
  Proof. intros Hb Hf. destruct b; try discriminate; try reflexivity; inversion Hb. Qed.

  Theorem nf_div n d : NF n -> NF d -> is_one d = false -> expr_eqb n d = false ->
    is_err (post_quotient (truediv n d)) = false -> NF (post_quotient (truediv n d)).
  Proof.
    intros Hn Hd H1 Hneq Herr.
    pose proof (NF_not_err o _ Hn) as En. pose proof (NF_not_err o _ Hd) as Ed.
    destruct (nofrac d) eqn:Fd.
    - (* the denominator is not a fraction *)
      destruct (nofrac n) eqn:Fn.
      + destruct (is_zero n) eqn:Zn.
        { destruct n; try discriminate. destruct d; try discriminate; try (cbn; constructor); inversion Hd. }
        destruct (is_zero d) eqn:Zd.
        { exfalso. destruct d; try discriminate. destruct n; try discriminate; try (inversion Hn; fail). }
        rewrite (truediv_plain n d Fn Fd En Ed Zn H1 Zd) in *. cbn [post_quotient]. rewrite Hneq. constructor; assumption.
      + destruct n as [| | |a b| | | |]; try discriminate.
        inversion Hn as [| | |n' d' Ha Hb Hfa Hfb Hb1 Hbz Haz Hab| |]; subst.
        rewrite (truediv_of_frac a b d Ed H1 Fd) in *.
        destruct (is_zero d) eqn:Zd.
        { exfalso. destruct d; try discriminate. rewrite (mul_zero_r b Hb Hfb) in Herr. cbn in Herr.
          unfold mk_frac, first_err in Herr. cbn [find] in Herr. rewrite (NF_not_err o _ Ha) in Herr. cbn in Herr. discriminate. }
        destruct (nf_mul b d Hb Hd Hfb Fd Hbz Zd) as [HD [FD [ZD [OD _]]]].
        rewrite (mk_frac_ok a (mul b d) (NF_not_err o _ Ha) (NF_not_err o _ HD) ZD).
        apply nf_post_frac; auto.
    - (* the denominator is a fraction: multiply across *)
      destruct d as [| | |a' b'| | | |]; try discriminate.
      inversion Hd as [| | |n' d' Ha' Hb' Hfa' Hfb' Hb1' Hbz' Haz' Hab'| |]; subst.
      destruct (nofrac n) eqn:Fn.
      + destruct (is_zero n) eqn:Zn.
        { destruct n; try discriminate. cbn. constructor. }
        rewrite (truediv_by_frac n a' b' En Zn Fn) in *.
        destruct (nf_mul n b' Hn Hb' Fn Hfb' Zn Hbz') as [HX [FX [ZX _]]].
        destruct (is_one a') eqn:O1.
        { destruct a'; try discriminate. rewrite truediv_one in *. destruct (mul n b'); try discriminate; exact HX. }
        rewrite (truediv_plain (mul n b') a' FX Hfa' (NF_not_err o _ HX) (NF_not_err o _ Ha') ZX O1 Haz') in *.
        apply nf_post_frac; auto.
      + destruct n as [| | |a b| | | |]; try discriminate.
        inversion Hn as [| | |n' d' Ha Hb Hfa Hfb Hb1 Hbz Haz Hab| |]; subst.
        change (truediv (EFrac a b) (EFrac a' b')) with (mk_frac (mul a b') (mul b a')) in *.
        destruct (nf_mul a b' Ha Hb' Hfa Hfb' Haz Hbz') as [HN [FN [ZN _]]].
        destruct (nf_mul b a' Hb Ha' Hfb Hfa' Hbz Haz') as [HD [FD [ZD [OD _]]]].
        rewrite (mk_frac_ok _ _ (NF_not_err o _ HN) (NF_not_err o _ HD) ZD).
        apply nf_post_frac; auto.
  Qed.
End Nf2.
