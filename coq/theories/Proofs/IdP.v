(* First theorems about the ID model. *)
From Coq Require Import List Bool Arith.
From Y0 Require Import Base.ListSet Graph.Closure Graph.MixedGraph Dsl.Syntax Dsl.Text Dsl.Build Alg.Id.
Import ListNotations.

Section IdP.
  Variable old : bool.
  Variable topo : mg nat -> option (list nat).

  (* line 1: without treatments the answer is the marginal of the carried distribution, whatever the graph *)
  Theorem identify_without_treatments fuel g Y est :
    identify old topo (S fuel) (mkIdent g [] Y est) = IdOk (sum_safe est (Vs (diff (nodes g) Y)) false).
  Proof. reflexivity. Qed.

  (* a refusal is only ever produced by the line-5 test (the whole graph and the graph without the treatments
     are each a single district) of some sub-problem; never by any other branch *)
  Inductive refused_at_line5 : ident -> Prop :=
  | r5_here : forall I, itr I <> [] ->
      is_nil (diff (nodes (ig I)) (ancestors_inclusive (ig I) (iout I))) = true ->
      is_nil (get_no_effect_on_outcomes (ig I) (itr I) (iout I)) = true ->
      is_connected (remove_nodes_from (ig I) (itr I)) = true -> is_connected (ig I) = true ->
      refused_at_line5 I
  | r5_line2 : forall I, refused_at_line5 (line_2 I) -> refused_at_line5 I
  | r5_line3 : forall I, refused_at_line5 (line_3 I) -> refused_at_line5 I
  | r5_line4 : forall I J, In J (line_4 I) -> refused_at_line5 J -> refused_at_line5 I
  | r5_line7 : forall I D o, In D (districts (ig I)) ->
      refused_at_line5 (mkIdent (subgraph (ig I) D) (inter (itr I) D) (iout I)
                                (prod_safe (map (fun v => p_parents old v o (iest I)) D))) ->
      refused_at_line5 I.

  Theorem identify_refuses_only_at_line5 fuel : forall I, identify old topo fuel I = IdUnident -> refused_at_line5 I.
  Proof.
    induction fuel as [|f IH]; intros I H; [discriminate|]. cbn [identify] in H.
    destruct (itr I) as [|x xs] eqn:EX; [discriminate|].
    destruct (negb (is_nil (diff (nodes (ig I)) (ancestors_inclusive (ig I) (iout I))))) eqn:E2.
    { apply r5_line2. apply IH. exact H. }
    destruct (negb (is_nil (get_no_effect_on_outcomes (ig I) (x :: xs) (iout I)))) eqn:E3.
    { apply r5_line3. apply IH. exact H. }
    destruct (negb (is_connected (remove_nodes_from (ig I) (x :: xs)))) eqn:E4.
    { (* line 4 *)
      destruct (find _ (map (identify old topo f) (line_4 I))) as [c|] eqn:Ef.
      - apply find_some in Ef. destruct Ef as [_ Hc]. rewrite H in Hc. discriminate.
      - destruct (existsb _ (map (identify old topo f) (line_4 I))) eqn:Ee; [|discriminate].
        apply existsb_exists in Ee. destruct Ee as [r [Hin Hr]]. apply in_map_iff in Hin. destruct Hin as [J [HJ HinJ]].
        destruct r; try discriminate. eapply r5_line4; [exact HinJ|]. apply IH. exact HJ. }
    destruct (is_connected (ig I)) eqn:E5.
    { apply r5_here; rewrite ?EX; try congruence.
      - apply negb_false_iff in E2. exact E2.
      - apply negb_false_iff in E3. exact E3.
      - apply negb_false_iff in E4. exact E4. }
    destruct (districts (remove_nodes_from (ig I) (x :: xs))) as [|S0 [|? ?]]; try discriminate.
    destruct (existsb (set_eqb S0) (districts (ig I))).
    { unfold with_order in H. destruct (topo (ig I)); [|discriminate]. destruct (is_topo (ig I) l); discriminate. }
    destruct (find _ (districts (ig I))) as [D|] eqn:Ef; [|discriminate].
    unfold with_order in H. destruct (topo (ig I)) as [o|]; [|discriminate]. destruct (is_topo (ig I) o); [|discriminate].
    apply find_some in Ef. destruct Ef as [HD _]. eapply r5_line7; [exact HD|]. apply IH. rewrite EX. exact H.
  Qed.
End IdP.

(* the bow graph X -> Y, X <-> Y: P(Y | do(X)) is refused *)
Example bow_is_refused :
  identify_outcomes false topological_sort (MG [0; 1] [(0, 1)] [(0, 1)]) [0] [1] = IdUnident.
Proof. vm_compute. reflexivity. Qed.

(* front door X -> M -> Y, X <-> Y: identified *)
Example front_door_is_identified :
  exists e, identify_outcomes false topological_sort (MG [0; 1; 2] [(0, 1); (1, 2)] [(0, 2)]) [0] [2] = IdOk e.
Proof. eexists. vm_compute. reflexivity. Qed.
