(* C18, semantic clause, part 2: relabelling the event after a merge keeps its truth; the merged graph keeps the invariant. *)
From Coq Require Import List Bool Arith Lia Permutation.
From Y0 Require Import Base.ListSet Graph.Closure Graph.MixedGraph Dsl.Syntax Dsl.Text Dsl.Build Alg.Cg
  Proofs.ClosureP Proofs.SurgeryP Proofs.SortP Sem.Scm Sem.CfSem Proofs.ScmP Proofs.CgSemP.
Import ListNotations.

Lemma NoDup_map_filter {A B} (k : A -> B) (p : A -> bool) l : NoDup (map k l) -> NoDup (map k (filter p l)).
Proof.
  induction l as [|a t IH]; intros Hn; [constructor|]. cbn [map] in Hn. inversion Hn as [|? ? Ha Ht]; subst. cbn [filter].
  destruct (p a); [cbn [map]; constructor; [|apply IH; exact Ht]|apply IH; exact Ht].
  intros Hin. apply Ha. apply in_map_iff in Hin. destruct Hin as [x [E Hx]]. apply filter_In in Hx. rewrite <- E. apply in_map. apply Hx.
Qed.

Lemma NoDup_app_single {A} (l : list A) x : NoDup l -> ~ In x l -> NoDup (l ++ [x]).
Proof.
  induction l as [|a t IH]; intros Hn Hx; cbn [app]; [constructor; [intros []|constructor]|]. inversion Hn as [|? ? Ha Ht]; subst. constructor.
  - intros Hin. apply in_app_or in Hin. destruct Hin as [Hin|[<-|[]]]; [contradiction|apply Hx; left; reflexivity].
  - apply IH; [exact Ht|intros Hin; apply Hx; right; exact Hin].
Qed.

Section Update.
  (* update_event on a dict (distinct keys) whose entry for [pref], if any, already carries the value of [elim] *)
  Variable ev : event.
  Variable pref elim : var.
  Variable x : nat * bool.
  Hypothesis keys : NoDup (map fst ev).
  Hypothesis Hne : pref <> elim.
  Hypothesis Hel : ev_get ev elim = Some x.
  Hypothesis Hpr : ev_get ev pref = None \/ ev_get ev pref = Some x.

  Lemma update_event_eq :
    update_event ev pref elim = filter (fun p => negb (eqb (fst p) elim)) ev ++ (if ev_has ev pref then [] else [(pref, x)]).
  Proof.
    unfold update_event. rewrite Hel. unfold ev_has. destruct Hpr as [Hp|Hp]; rewrite Hp.
    - rewrite filter_app. cbn [filter fst]. destruct (eqb pref elim) eqn:E; [apply eqb_true in E; contradiction|]. reflexivity.
    - rewrite app_nil_r. f_equal. rewrite <- (map_id ev) at 2. apply map_ext_in. intros [k y] Hin. cbn [fst]. destruct (eqb k pref) eqn:E; [|reflexivity].
      apply eqb_true in E. subst k. rewrite (In_ev_get ev pref y keys Hin) in Hp. inversion Hp; subst. reflexivity.
  Qed.

  Lemma update_keeps p : In p ev -> fst p <> elim -> In p (update_event ev pref elim).
  Proof. intros Hp Hk. rewrite update_event_eq. apply in_or_app. left. apply filter_In. split; [exact Hp|]. apply negb_true_iff. apply eqb_neq. exact Hk. Qed.

  Lemma update_has_pref : In (pref, x) (update_event ev pref elim).
  Proof.
    rewrite update_event_eq. apply in_or_app. unfold ev_has. destruct Hpr as [Hp|Hp]; rewrite Hp.
    - right. left. reflexivity.
    - left. apply filter_In. split; [apply ev_get_In; exact Hp|]. cbn [fst]. apply negb_true_iff. apply eqb_neq. exact Hne.
  Qed.

  Lemma update_from p : In p (update_event ev pref elim) -> p = (pref, x) \/ (In p ev /\ fst p <> elim).
  Proof.
    rewrite update_event_eq. intros Hin. apply in_app_or in Hin. destruct Hin as [Hin|Hin].
    - apply filter_In in Hin. destruct Hin as [Hin Hk]. right. split; [exact Hin|]. apply negb_true_iff in Hk. apply eqb_neq. exact Hk.
    - destruct (ev_has ev pref); [destruct Hin|]. destruct Hin as [<-|[]]. left. reflexivity.
  Qed.

  Lemma update_keys : NoDup (map fst (update_event ev pref elim)).
  Proof.
    rewrite update_event_eq. rewrite map_app. unfold ev_has. destruct Hpr as [Hp|Hp]; rewrite Hp.
    - cbn [map fst]. apply NoDup_app_single; [apply NoDup_map_filter; exact keys|].
      intros Hin. apply in_map_iff in Hin. destruct Hin as [[k y] [E Hin]]. cbn [fst] in E. subst k. apply filter_In in Hin. destruct Hin as [Hin _].
      rewrite (In_ev_get ev pref y keys Hin) in Hp. discriminate.
    - cbn [map]. rewrite app_nil_r. apply NoDup_map_filter. exact keys.
  Qed.
End Update.

Lemma index_of_lt (v : nat) l i : index_of v l = Some i -> i < length l.
Proof.
  revert i. induction l as [|x t IH]; intros i E; [discriminate|]. cbn [index_of] in E. destruct (eqb x v); [inversion E; cbn; lia|].
  destruct (index_of v t) as [k|]; [|discriminate]. cbn in E. inversion E; subst. cbn [length]. specialize (IH k eq_refl). lia.
Qed.

Definition mdirs (g : cgraph) (n1 n2 : var) : list (var * var) :=
  filter (fun e => negb (eqb (fst e) n2) && negb (eqb (snd e) n2)) (dir g) ++ flat_map (fun e => if eqb (fst e) n2 then [(n1, snd e)] else []) (dir g).
Definition mbids (g : cgraph) (n1 n2 : var) : list (var * var) :=
  filter (fun e => negb (eqb (fst e) n2) && negb (eqb (snd e) n2)) (bid g)
  ++ flat_map (fun e => if eqb (fst e) n2 && negb (eqb (snd e) n1) then [(n1, snd e)] else []) (bid g)
  ++ flat_map (fun e => if eqb (snd e) n2 && negb (eqb (fst e) n1) then [(fst e, n1)] else []) (bid g).
Definition mnodes (g : cgraph) (n1 n2 : var) : list var :=
  filter (fun n => negb (eqb n n2) && negb (mem n (filter (fun u => negb (mem u (parents g n1))) (parents g n2)))) (nodes g).
Definition merged (g : cgraph) (n1 n2 : var) : cgraph := from_edges (mnodes g n1 n2) (dedup (mdirs g n1 n2)) (mbids g n1 n2).

Lemma merge_pw_cases g a b :
  exists n1 n2, ((n1 = a /\ n2 = b) \/ (n1 = b /\ n2 = a)) /\ merge_pw g a b = (merged g n1 n2, n1, n2).
Proof.
  unfold merge_pw. destruct (is_cf a && negb (is_cf b)); [exists b, a; split; [right; auto|reflexivity]|].
  destruct (negb (is_cf a) && is_cf b); [exists a, b; split; [left; auto|reflexivity]|].
  destruct (var_sort_lt b a); [exists b, a; split; [right; auto|reflexivity]|exists a, b; split; [left; auto|reflexivity]].
Qed.

Lemma In_mdirs g n1 n2 x y :
  In (x, y) (mdirs g n1 n2) <-> (In (x, y) (dir g) /\ x <> n2 /\ y <> n2) \/ (x = n1 /\ In (n2, y) (dir g)).
Proof.
  unfold mdirs. rewrite in_app_iff, filter_In, in_flat_map. cbn [fst snd]. rewrite andb_true_iff, !negb_true_iff, !eqb_neq. split.
  - intros [H|[[a b] [Hab Hin]]]; [left; tauto|]. cbn [fst snd] in Hin. destruct (eqb a n2) eqn:E; [|destruct Hin]. apply eqb_true in E. subst a.
    destruct Hin as [Hin|[]]. inversion Hin; subst. right. auto.
  - intros [H|[-> H]]; [left; tauto|]. right. exists (n2, y). split; [exact H|]. cbn [fst snd]. rewrite eqb_refl. left. reflexivity.
Qed.

Lemma In_mbids g n1 n2 x y :
  In (x, y) (mbids g n1 n2) ->
  (In (x, y) (bid g) /\ x <> n2 /\ y <> n2) \/ (x = n1 /\ In (n2, y) (bid g) /\ y <> n1) \/ (y = n1 /\ In (x, n2) (bid g) /\ x <> n1).
Proof.
  unfold mbids. rewrite !in_app_iff, filter_In, !in_flat_map. cbn [fst snd]. rewrite andb_true_iff, !negb_true_iff, !eqb_neq.
  intros [H|[[[a b] [Hab Hin]]|[[a b] [Hab Hin]]]]; [left; tauto| |]; cbn [fst snd] in Hin.
  - destruct (eqb a n2) eqn:E; cbn [andb] in Hin; [|destruct Hin]. destruct (eqb b n1) eqn:E2; cbn [negb] in Hin; [destruct Hin|]. destruct Hin as [Hin|[]].
    inversion Hin; subst. apply eqb_true in E. subst a. apply eqb_neq in E2. right. left. auto.
  - destruct (eqb b n2) eqn:E; cbn [andb] in Hin; [|destruct Hin]. destruct (eqb a n1) eqn:E2; cbn [negb] in Hin; [destruct Hin|]. destruct Hin as [Hin|[]].
    inversion Hin; subst. apply eqb_true in E. subst b. apply eqb_neq in E2. right. right. auto.
Qed.

Section CgSem2.
  Variable g0 : mg nat.
  Context {D : Type} {eqD : EqB D}.
  Variable U : Type.
  Variable f : nat -> (nat -> D) -> U -> D.
  Variable rho : nat * bool -> D.
  Hypothesis rho_distinct : forall n, rho (n, false) <> rho (n, true).
  Hypothesis f_local : local g0 U f.
  Variable order : list nat.
  Hypothesis order_ok : is_topo g0 order = true.
  Variable u : U.
  Variable worlds : list world.

  Notation val := (val U f rho order u).
  Notation sol := (sol U f rho order u).
  Notation holds := (holds U f rho order u).
  Notation low := (low U f rho order u).
  Notation pos := (pos order).
  Notation Inv := (Inv g0 U f rho order u worlds).

  Definition evholds (ev : event) : Prop := forall p, In p ev -> holds p.

  Lemma pos_le v : pos v <= length order.
  Proof. unfold CgSemP.pos. destruct (index_of v order) as [i|] eqn:E; [apply index_of_lt in E; lia|lia]. Qed.

  Lemma evholds_low ev : evholds ev <-> low (S (length order)) ev.
  Proof. split; [intros H p Hp _; apply H; exact Hp|intros H p Hp; apply H; [exact Hp|pose proof (pos_le (vn (fst p))); lia]]. Qed.

  (* ------------------------------------------------------------ the event after a merge *)
  Section Transfer.
    Variable ev : event.
    Variable pref elim : var.
    Variable x : nat * bool.
    Hypothesis keys : NoDup (map fst ev).
    Hypothesis named : wnamed ev.
    Hypothesis Hne : pref <> elim.
    Hypothesis Hvn : vn pref = vn elim.
    Hypothesis Hel : ev_get ev elim = Some x.
    Hypothesis Hpr : ev_get ev pref = None \/ ev_get ev pref = Some x.
    Hypothesis Heq : low (pos (vn pref)) ev -> val pref = val elim.

    Let ev' := update_event ev pref elim.

    Lemma transfer_named : wnamed ev'.
    Proof.
      intros p Hp. destruct (update_from ev pref elim x keys Hne Hel Hpr p Hp) as [->|[Hin _]]; [|apply named; exact Hin].
      cbn [fst snd]. rewrite Hvn. apply (named (elim, x)). apply ev_get_In. exact Hel.
    Qed.

    Lemma transfer_low_back j : low j ev' -> low j ev.
    Proof.
      intros H p Hp Hlt. destruct (eqb (fst p) elim) eqn:E.
      - apply eqb_true in E. destruct p as [k y]. cbn [fst] in E, Hlt. subst k.
        assert (y = x) by (pose proof (In_ev_get ev elim y keys Hp) as E1; rewrite Hel in E1; inversion E1; reflexivity). subst y.
        assert (Hpx : holds (pref, x)) by (apply H; [apply (update_has_pref ev pref elim x keys Hne Hel Hpr)|cbn [fst]; rewrite Hvn; exact Hlt]).
        unfold CgSemP.holds in *. cbn [fst snd] in *. rewrite <- Hpx. symmetry. apply Heq.
        intros q Hq Hql. apply H; [|rewrite Hvn in Hql; lia]. apply (update_keeps ev pref elim x keys Hne Hel Hpr q Hq).
        intros Eq. rewrite Eq in Hql. rewrite Hvn in Hql. lia.
      - apply eqb_neq in E. apply H; [|exact Hlt]. apply (update_keeps ev pref elim x keys Hne Hel Hpr p Hp E).
    Qed.

    Lemma transfer_low_forth j : low j ev -> low j ev'.
    Proof.
      intros H p Hp Hlt. destruct (update_from ev pref elim x keys Hne Hel Hpr p Hp) as [->|[Hin _]]; [|apply H; assumption].
      cbn [fst] in Hlt. unfold CgSemP.holds. cbn [fst snd]. rewrite Heq; [|apply (low_mono U f rho order u _ j); [lia|exact H]].
      apply (H (elim, x)); [apply ev_get_In; exact Hel|cbn [fst]; rewrite <- Hvn; exact Hlt].
    Qed.

    Lemma transfer_holds : evholds ev <-> evholds ev'.
    Proof. rewrite !evholds_low. split; [apply transfer_low_forth|apply transfer_low_back]. Qed.
  End Transfer.

  (* two merged nodes with different values in the event: the event holds nowhere *)
  Lemma inconsistent_never ev a b :
    NoDup (map fst ev) -> wnamed ev -> vn a = vn b -> (low (pos (vn a)) ev -> val a = val b) -> is_inconsistent ev a b = true -> ~ evholds ev.
  Proof.
    intros keys named Hvn Heq Hinc Hall. unfold is_inconsistent in Hinc. destruct (ev_get ev a) as [x|] eqn:Ea; [|discriminate]. destruct (ev_get ev b) as [y|] eqn:Eb; [|discriminate].
    apply negb_true_iff in Hinc. apply eqb_neq in Hinc. apply ev_get_In in Ea, Eb. pose proof (Hall _ Ea) as H1. pose proof (Hall _ Eb) as H2. unfold CgSemP.holds in H1, H2. cbn [fst snd] in H1, H2.
    pose proof (named _ Ea) as N1. pose proof (named _ Eb) as N2. cbn [fst snd] in N1, N2.
    assert (Hv : val a = val b) by (apply Heq; intros p Hp _; apply Hall; exact Hp). rewrite H1, H2 in Hv. unfold lit in Hv.
    destruct x as [xn xs], y as [yn ys]. cbn [fst snd] in *. subst xn yn. rewrite Hvn in Hv. apply Hinc. f_equal; [exact Hvn|]. destruct xs, ys; try reflexivity; exfalso; [apply (rho_distinct (vn b)); symmetry; exact Hv|apply (rho_distinct (vn b)); exact Hv].
  Qed.
End CgSem2.
