(* C04: the full statement. On a well-formed acyclic directed mixed graph the verdict of are_d_separated is the textbook
   one [d_separated_spec]: no simple path in the skeleton of the latent DAG is active given C. *)
From Coq Require Import List Bool Arith Lia.
From Y0 Require Import Base.ListSet Graph.MixedGraph Graph.DSep Graph.MSep
  Proofs.MSepP Proofs.MSepSymP Proofs.MSepLatP Proofs.MSepPathP Proofs.MSepShortP Proofs.KahnP.
Import ListNotations.

Theorem spec_iff_connected (g : mg nat) a b C :
  wf g -> (forall u v, In (u, v) (dir g) -> ~ In (v, u) (dir g)) ->
  In a (nodes g) -> In b (nodes g) -> incl C (nodes g) -> ~ In a C ->
  (d_connected_spec g a b C = true <-> m_connected g C a b).
Proof. intros. split; [apply spec_connected_walk|apply walk_spec_connected]; assumption. Qed.

Theorem dsep_equals_textbook (g : mg nat) a b C :
  wf g -> is_acyclic g = true ->
  In a (nodes g) -> In b (nodes g) -> incl C (nodes g) -> ~ In a C -> ~ In b C ->
  are_d_separated g a b C = DOk (d_separated_spec g a b C).
Proof.
  intros Hw Hac Ha Hb HC Na Nb.
  pose proof (acyclic_no_2cycle g Hw Hac) as Hno.
  destruct (are_d_separated_correct g a b C Ha Hb HC Na Nb) as [s [Hs Hiff]]. rewrite Hs. f_equal.
  apply bool_iff. rewrite Hiff. unfold d_separated_spec. rewrite negb_true_iff.
  rewrite <- (spec_iff_connected g a b C Hw Hno Ha Hb HC Na).
  destruct (d_connected_spec g a b C); split; congruence.
Qed.
