(* C13: chain rule, fraction (Bayes) expansion and contraction are identities in every lawful model. *)
From Coq Require Import List Bool Arith QArith Permutation Lia.
From Y0 Require Import Base.ListSet Graph.MixedGraph Dsl.Syntax Dsl.Text Dsl.Build Dsl.Canon Dsl.Sem Dsl.Laws
  Proofs.SortP Proofs.ExprP Proofs.SurgeryP Proofs.SemP Proofs.LawP Proofs.AtomsP Proofs.SumSimpP.
Import ListNotations.
Open Scope Q_scope.

Lemma Qmult_cancel_r a b p : ~ p == 0 -> a * p == b * p -> a == b.
Proof. intros Hp H. apply (Qmult_inj_r a b p Hp). exact H. Qed.

Lemma Qdiv_from_mult a b p : ~ p == 0 -> a * p == b -> a == b / p.
Proof. intros Hp H. rewrite <- H. unfold Qdiv. rewrite <- Qmult_assoc, Qmult_inv_r, Qmult_1_r; [reflexivity|exact Hp]. Qed.

Lemma upgrade_perm (l : list var) : NoDup l -> Permutation (upgrade_ordering l) l.
Proof.
  intros Hnd. unfold upgrade_ordering, sorted_variables. eapply perm_trans; [apply Permutation_sym; apply stable_sort_perm|].
  apply NoDup_Permutation; [apply NoDup_dedup|exact Hnd|]. intros x. apply In_dedup.
Qed.

Lemma NoDup_app_intro' {T} (l1 l2 : list T) : NoDup l1 -> NoDup l2 -> (forall x, In x l1 -> In x l2 -> False) -> NoDup (l1 ++ l2).
Proof.
  induction l1 as [|a t IH]; intros H1 H2 Hd; [exact H2|]. inversion H1 as [|? ? Ha Ht]; subst. cbn [app]. constructor.
  - rewrite in_app_iff. intros [H|H]; [contradiction|]. apply (Hd a); [left; reflexivity|exact H].
  - apply IH; [exact Ht|exact H2|]. intros x Hx. apply Hd. right. exact Hx.
Qed.

Lemma NoDup_app_l {T} (l1 l2 : list T) : NoDup (l1 ++ l2) -> NoDup l1.
Proof.
  induction l1 as [|a t IH]; intros H; [constructor|]. cbn [app] in H. inversion H as [|? ? Ha Ht]; subst.
  constructor; [intros Hin; apply Ha; apply in_or_app; left; exact Hin|apply IH; exact Ht].
Qed.

Lemma NoDup_app_disj {T} (l1 l2 : list T) : NoDup (l1 ++ l2) -> forall x, In x l1 -> In x l2 -> False.
Proof.
  induction l1 as [|a t IH]; intros H x H1 H2; [destruct H1|]. cbn [app] in H. inversion H as [|? ? Ha Ht]; subst.
  destruct H1 as [->|H1]; [apply Ha; apply in_or_app; right; exact H2|exact (IH Ht x H1 H2)].
Qed.

Section ChainP.
  Variable m : model.
  Hypothesis Hlaw : lawful m.
  Variable pop : option var.
  Notation P := (atom m pop).

  Lemma P_nonzero ch pa r : ~ P ch pa r == 0.
  Proof. intros F. pose proof (law_pos m Hlaw pop ch pa r) as Hp. rewrite F in Hp. discriminate. Qed.

  Lemma eval_prob_raw l q r : l <> [] -> eval m (prob_raw pop l q) r = P l q r.
  Proof. intros H. destruct l; [congruence|reflexivity]. Qed.

  (* conditional probability as a quotient of joints *)
  Lemma cond_as_quotient ch pa r : ch <> [] -> pa <> [] -> P ch pa r == P (ch ++ pa) [] r / P pa [] r.
  Proof. intros Hc Hp. apply Qdiv_from_mult; [apply P_nonzero|]. apply (law_chain m Hlaw); assumption. Qed.

  (* one step of the chain rule, under a conditioning set *)
  Lemma chain_step x rest pa r : rest <> [] -> P (x :: rest) pa r == P [x] (rest ++ pa) r * P rest pa r.
  Proof.
    intros Hr. destruct pa as [|p0 pt].
    - rewrite app_nil_r. symmetry. apply (law_chain m Hlaw pop [x] rest r); [discriminate|exact Hr].
    - apply (Qmult_cancel_r _ _ (P (p0 :: pt) [] r)); [apply P_nonzero|].
      rewrite (law_chain m Hlaw pop (x :: rest) (p0 :: pt) r) by discriminate.
      rewrite <- Qmult_assoc. rewrite (law_chain m Hlaw pop rest (p0 :: pt) r) by (try exact Hr; discriminate).
      symmetry. apply (law_chain m Hlaw pop [x] (rest ++ p0 :: pt) r); [discriminate|]. destruct rest; [congruence|discriminate].
  Qed.

  Lemma chain_product oc pa r : oc <> [] ->
    qprod (map (fun xt : var * list var => P [fst xt] (snd xt ++ pa) r) (tails oc)) == P oc pa r.
  Proof.
    induction oc as [|x rest IH]; intros Hne; [congruence|]. cbn [tails map qprod fold_right fst snd].
    destruct rest as [|y t].
    - cbn [tails map fold_right app]. apply Qmult_1_r.
    - fold (qprod (map (fun xt : var * list var => P [fst xt] (snd xt ++ pa) r) (tails (y :: t)))).
      rewrite IH by discriminate. symmetry. apply chain_step. discriminate.
  Qed.

  (* ---- chain_expand ---- *)
  Theorem eval_chain_expand ch pa reorder ordering r :
    NoDup (ch ++ pa) -> ch <> [] ->
    is_err (chain_expand (EProb pop ch pa) reorder ordering) = false ->
    eval m (chain_expand (EProb pop ch pa) reorder ordering) r == P ch pa r.
  Proof.
    intros Hnd Hne. cbn [chain_expand].
    set (ordered := if reorder then _ else Some ch).
    assert (Hord : forall oc, ordered = Some oc -> Permutation oc ch).
    { subst ordered. destruct reorder; [|intros oc E; injection E as <-; apply Permutation_refl].
      destruct (forallb _ ch) eqn:Ef; [|discriminate]. intros oc E. injection E as <-.
      rewrite forallb_forall in Ef. apply NoDup_Permutation.
      - apply NoDup_filter. unfold ensure_ordering. destruct ordering; unfold upgrade_ordering, sorted_variables;
          (eapply Permutation_NoDup; [apply stable_sort_perm|apply NoDup_dedup]).
      - apply NoDup_app_l in Hnd. exact Hnd.
      - intros x. rewrite filter_In, mem_In. split; [tauto|]. intros Hx. split; [|exact Hx]. apply mem_In. apply Ef. exact Hx. }
    destruct ordered as [oc|]; [|discriminate]. specialize (Hord oc eq_refl). intros Herr.
    assert (Hoc : oc <> []) by (intros ->; apply Permutation_nil in Hord; congruence).
    rewrite eval_prod_safe. unfold eval_list. rewrite map_map.
    rewrite <- (law_perm m Hlaw pop oc ch pa pa r Hord (Permutation_refl _)). rewrite <- chain_product by exact Hoc.
    assert (Hgen : forall l, (forall x t, In (x, t) l -> NoDup (t ++ pa)) ->
              qprod (map (fun xt : var * list var => eval m (prob_raw pop [fst xt] (upgrade_ordering (snd xt ++ pa))) r) l) ==
              qprod (map (fun xt : var * list var => P [fst xt] (snd xt ++ pa) r) l)).
    { induction l as [|[x t] l IHl]; intros Hl; [reflexivity|]. cbn [map qprod fold_right fst snd prob_raw eval].
      rewrite (law_perm m Hlaw pop [x] [x] _ (t ++ pa) r (Permutation_refl _) (upgrade_perm _ (Hl x t (or_introl eq_refl)))).
      fold (qprod (map (fun xt : var * list var => eval m (prob_raw pop [fst xt] (upgrade_ordering (snd xt ++ pa))) r) l)).
      rewrite IHl; [reflexivity|]. intros x' t' H'. apply (Hl x' t'). right. exact H'. }
    apply Hgen. intros x t Hin.
    assert (Hnd' : NoDup (oc ++ pa)).
    { eapply Permutation_NoDup; [|exact Hnd]. apply Permutation_app_tail. apply Permutation_sym. exact Hord. }
    clear - Hin Hnd'. revert Hnd'. induction oc as [|y u IHu]; intros Hnd'; [destruct Hin|]. cbn [tails] in Hin. destruct Hin as [E|Hin].
    - injection E as -> ->. cbn [app] in Hnd'. inversion Hnd'; assumption.
    - apply IHu; [exact Hin|]. cbn [app] in Hnd'. inversion Hnd'; assumption.
  Qed.

  (* ---- fraction_expand: P(c | p) = P(c, p) / P(p) ---- *)
  Theorem eval_fraction_expand ch pa r :
    NoDup pa -> ch <> [] -> eval m (fraction_expand (EProb pop ch pa)) r == P ch pa r.
  Proof.
    intros Hnd Hne. cbn [fraction_expand]. destruct pa as [|p0 pt]; [reflexivity|].
    rewrite eval_mk_frac. cbn [uncondition].
    assert (Hup : upgrade_ordering (p0 :: pt) <> []).
    { intros E. pose proof (upgrade_perm _ Hnd) as Hp. rewrite E in Hp. apply Permutation_nil in Hp. discriminate. }
    rewrite !eval_prob_raw; [|exact Hup|destruct ch; discriminate].
    rewrite (law_perm m Hlaw pop _ (p0 :: pt) [] [] r (upgrade_perm _ Hnd) (Permutation_refl _)).
    symmetry. apply cond_as_quotient; [exact Hne|discriminate].
  Qed.

  (* ---- contract: P(n) / P(d) = P(n minus d | d) when d is a proper subset of n ---- *)
  Theorem eval_contract nch dch r :
    NoDup nch -> NoDup dch -> dch <> [] ->
    is_err (contract (EFrac (EProb pop nch []) (EProb pop dch []))) = false ->
    eval m (contract (EFrac (EProb pop nch []) (EProb pop dch []))) r == P nch [] r / P dch [] r.
  Proof.
    intros Hn Hd Hdne. cbn [contract]. rewrite eqb_refl. cbn [andb].
    destruct (subset dch nch) eqn:E1; [|intros _; reflexivity]. destruct (subset nch dch) eqn:E2; [intros _; reflexivity|]. cbn [negb andb].
    apply subset_incl in E1.
    set (C := by_name (dedup (diff nch dch))). set (Pa := by_name (dedup (inter nch dch))).
    assert (HC : Permutation C (diff nch dch)).
    { unfold C, by_name. eapply perm_trans; [apply Permutation_sym; apply stable_sort_perm|].
      apply NoDup_Permutation; [apply NoDup_dedup|apply NoDup_filter; exact Hn|intros x; apply In_dedup]. }
    assert (HP : Permutation Pa dch).
    { unfold Pa, by_name. eapply perm_trans; [apply Permutation_sym; apply stable_sort_perm|].
      apply NoDup_Permutation; [apply NoDup_dedup|exact Hd|]. intros x. rewrite In_dedup, In_inter. split; [tauto|]. intros Hx. split; [apply E1; exact Hx|exact Hx]. }
    assert (HCP : Permutation (C ++ Pa) nch).
    { apply NoDup_Permutation; [| exact Hn |].
      - apply NoDup_app_intro'; [eapply Permutation_NoDup; [apply Permutation_sym; exact HC|apply NoDup_filter; exact Hn]
                                      |eapply Permutation_NoDup; [apply Permutation_sym; exact HP|exact Hd]|].
        intros x Hx Hx'. apply (Permutation_in _ HC) in Hx. apply (Permutation_in _ HP) in Hx'. apply In_diff in Hx. tauto.
      - intros x. rewrite in_app_iff. split.
        + intros [Hx|Hx]; [apply (Permutation_in _ HC) in Hx; apply In_diff in Hx; tauto|apply (Permutation_in _ HP) in Hx; apply E1; exact Hx].
        + intros Hx. destruct (in_dec (@eq_dec_of var _) x dch) as [Hi|Hi].
          * right. apply (Permutation_in _ (Permutation_sym HP)). exact Hi.
          * left. apply (Permutation_in _ (Permutation_sym HC)). apply In_diff. tauto. }
    unfold prob_raw. destruct C as [|c0 ct] eqn:EC; [intros H; discriminate|]. intros _. cbn [eval]. rewrite <- EC in *.
    assert (HPne : Pa <> []) by (intros E; rewrite E in HP; apply Permutation_nil in HP; congruence).
    rewrite cond_as_quotient; [|rewrite EC; discriminate|exact HPne].
    rewrite (law_perm m Hlaw pop (C ++ Pa) nch [] [] r HCP (Permutation_refl _)).
    rewrite (law_perm m Hlaw pop Pa dch [] [] r HP (Permutation_refl _)). reflexivity.
  Qed.

  (* ---- bayes_expand: P(c | p) = P(c, p) / sum_c P(c, p) ---- *)
  Theorem eval_bayes_expand ch pa r :
    NoDup (names (ch ++ pa)) -> ch <> [] -> eval m (bayes_expand (EProb pop ch pa)) r == P ch pa r.
  Proof.
    intros Hnd Hne. cbn [bayes_expand]. destruct pa as [|p0 pt]; [reflexivity|]. cbn [uncondition].
    assert (Hndc : NoDup (names ch)) by (unfold names in *; rewrite map_app in Hnd; apply NoDup_app_l in Hnd; exact Hnd).
    assert (Hgb : NoDup (map get_base ch)).
    { clear - Hndc. unfold names in Hndc. induction ch as [|c t IH]; [constructor|]. cbn [map] in *. inversion Hndc as [|? ? Hc Ht]; subst.
      constructor; [|apply IH; exact Ht]. intros Hin. apply Hc. apply in_map_iff in Hin. destruct Hin as [c' [E Hc']].
      unfold get_base in E. injection E as E. rewrite <- E. apply in_map. exact Hc'. }
    assert (Hbad : existsb bad_range (upgrade_ordering (map get_base ch)) = false).
    { destruct (existsb bad_range _) eqn:Eb; [|reflexivity]. apply existsb_exists in Eb. destruct Eb as [x [Hx Hb]].
      apply (Permutation_in _ (upgrade_perm _ Hgb)) in Hx. apply in_map_iff in Hx. destruct Hx as [c [<- _]]. discriminate. }
    rewrite (eval_normalize_marginalize m _ ch r Hbad).
    assert (Hjne : ch ++ p0 :: pt <> []) by (destruct ch; discriminate).
    rewrite eval_prob_raw by exact Hjne.
    rewrite (cond_as_quotient ch (p0 :: pt) r Hne) by discriminate.
    assert (Hsum : sum_over m (map vn (upgrade_ordering (map get_base ch))) (eval m (prob_raw pop (ch ++ p0 :: pt) [])) r == P (p0 :: pt) [] r).
    { rewrite (sum_over_ext m _ _ (joint m pop (ch ++ p0 :: pt)) r).
      2:{ intros r'. rewrite eval_prob_raw by exact Hjne. destruct (ch ++ p0 :: pt); [congruence|reflexivity]. }
      assert (Hperm : Permutation (map vn (upgrade_ordering (map get_base ch))) (names ch)).
      { unfold names. replace (map vn ch) with (map vn (map get_base ch)) by (rewrite map_map; reflexivity).
        apply Permutation_map. apply upgrade_perm. exact Hgb. }
      rewrite (sum_over_perm m _ _ Hperm) by (apply ext_joint; exact Hlaw).
      rewrite (marg_many m Hlaw pop (names ch) Hndc (ch ++ p0 :: pt) r Hnd).
      rewrite filter_none.
      2:{ intros n Hn. apply negb_false_iff. apply mem_In. unfold names. rewrite map_app. apply in_or_app. left. exact Hn. }
      cbn [sum_over]. unfold keepc. rewrite filter_app.
      rewrite filter_none.
      2:{ intros c Hc. apply negb_false_iff. apply mem_In. apply in_map. exact Hc. }
      rewrite filter_all.
      2:{ intros c Hc. apply negb_true_iff. apply mem_false. intros Hin. unfold names in Hnd. rewrite map_app in Hnd.
          apply (NoDup_app_disj _ _ Hnd (vn c) Hin). apply in_map. exact Hc. }
      reflexivity. }
    rewrite Hsum. reflexivity.
  Qed.
End ChainP.
