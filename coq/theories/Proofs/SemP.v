(* C13: the operators of the DSL are identities of arithmetic on the denotations, for every model and environment. *)
From Coq Require Import List Bool Arith QArith Permutation Lia.
From Y0 Require Import Base.ListSet Dsl.Syntax Dsl.Text Dsl.Build Dsl.Sem Proofs.SortP Proofs.ExprP.
Import ListNotations.
Open Scope Q_scope.

Section SemP.
  Variable m : model.
  Variable r : env.

  Lemma eval_prod es : eval m (EProd es) r == qprod (eval_list m es r).
  Proof. induction es as [|x t IH]; simpl; [reflexivity|]. simpl in IH. rewrite IH. reflexivity. Qed.

  Lemma qprod_app l1 l2 : qprod (l1 ++ l2) == qprod l1 * qprod l2.
  Proof. induction l1 as [|x t IH]; simpl; [ring|]. rewrite IH. ring. Qed.

  Lemma qprod_perm l l' : Permutation l l' -> qprod l == qprod l'.
  Proof.
    induction 1 as [|x l l' _ IH|x y l|l l' l'' _ IH1 _ IH2]; simpl; try reflexivity.
    - rewrite IH. reflexivity.
    - ring.
    - rewrite IH1. exact IH2.
  Qed.

  Lemma eval_err e : is_err e = true -> eval m e r == 0.
  Proof. destruct e; try discriminate. reflexivity. Qed.

  Lemma eval_one e : is_one e = true -> eval m e r == 1.
  Proof. destruct e; try discriminate. reflexivity. Qed.

  Lemma eval_zero e : is_zero e = true -> eval m e r == 0.
  Proof. destruct e; try discriminate. reflexivity. Qed.

  Lemma qprod_has_zero l : (exists x, In x l /\ x == 0) -> qprod l == 0.
  Proof.
    induction l as [|y t IH]; intros [x [Hx Hz]]; [destruct Hx|]. simpl. destruct Hx as [->|Hx].
    - rewrite Hz. ring.
    - rewrite IH by (exists x; auto). ring.
  Qed.

  Lemma qprod_filter_ones (es : list expr) :
    qprod (eval_list m (filter (fun e => negb (is_one e)) es) r) == qprod (eval_list m es r).
  Proof.
    induction es as [|x t IH]; simpl; [reflexivity|]. destruct (is_one x) eqn:E; simpl.
    - rewrite IH, (eval_one x E). ring.
    - rewrite IH. reflexivity.
  Qed.

  (* Product.safe denotes the product of its arguments (an error value denotes 0 and makes the product 0 as well) *)
  Theorem eval_prod_safe_gen old es : eval m (prod_safe_gen old es) r == qprod (eval_list m es r).
  Proof.
    unfold prod_safe_gen, first_err. destruct (find is_err es) as [e|] eqn:Ef.
    - apply find_some in Ef. destruct Ef as [Hin He]. rewrite (eval_err e He). symmetry. apply qprod_has_zero.
      exists (eval m e r). split; [unfold eval_list; apply (in_map (fun e => eval m e r)); exact Hin|apply eval_err; exact He].
    - rewrite <- qprod_filter_ones. set (es1 := filter (fun e => negb (is_one e)) es).
      destruct (existsb is_zero es1) eqn:Ez.
      + apply existsb_exists in Ez. destruct Ez as [z [Hz Hzz]]. simpl. symmetry. apply qprod_has_zero.
        exists (eval m z r). split; [unfold eval_list; apply (in_map (fun e => eval m e r)); exact Hz|apply eval_zero; exact Hzz].
      + destruct es1 as [|x [|y t]] eqn:E1; [reflexivity|simpl; ring|].
        rewrite eval_prod. apply qprod_perm. unfold eval_list. apply Permutation_map. apply Permutation_sym. apply stable_sort_perm.
  Qed.

  Theorem eval_prod_safe es : eval m (prod_safe es) r == qprod (eval_list m es r).
  Proof. apply eval_prod_safe_gen. Qed.

  Lemma Qdiv_0_r x : x / 0 == 0.
  Proof. unfold Qdiv. change (/ 0) with 0. ring. Qed.

  Theorem eval_mk_frac n d : eval m (mk_frac n d) r == eval m n r / eval m d r.
  Proof.
    unfold mk_frac, first_err. cbn [find]. destruct (is_err n) eqn:En.
    - rewrite (eval_err n En). unfold Qdiv. ring.
    - destruct (is_err d) eqn:Ed.
      + rewrite (eval_err d Ed), Qdiv_0_r. reflexivity.
      + destruct (is_zero d) eqn:Ez; [|reflexivity]. rewrite (eval_zero d Ez), Qdiv_0_r. reflexivity.
  Qed.

  Lemma eval_list_app a b : eval_list m (a ++ b) r = eval_list m a r ++ eval_list m b r.
  Proof. unfold eval_list. apply map_app. Qed.

  (* __mul__ of every class denotes multiplication *)
  Theorem eval_mul : forall a b, eval m (mul a b) r == eval m a r * eval m b r.
  Proof.
    induction a as [pop ch pa|es IHes|e rs IHe|n d IHn IHd| | |dm cd|k] using expr_ind'; intros b.
    - induction b as [pop' ch' pa'|es' _|e' rs' _|n' d' IHn' _| | |dm' cd'|k'] using expr_ind'; cbn [mul];
        try (rewrite eval_prod_safe; simpl; ring); try (simpl; ring).
      + rewrite eval_prod_safe. simpl. rewrite <- (eval_prod es'). simpl. ring.
      + rewrite eval_mk_frac, IHn'. simpl. unfold Qdiv. ring.
    - induction b as [pop' ch' pa'|es' _|e' rs' _|n' d' IHn' _| | |dm' cd'|k'] using expr_ind'; cbn [mul];
        try (rewrite eval_prod_safe, eval_list_app, qprod_app, <- eval_prod; simpl; ring); try (simpl; ring).
      + rewrite eval_prod_safe, eval_list_app, qprod_app, <- !eval_prod. reflexivity.
      + rewrite eval_mk_frac, IHn'. simpl. unfold Qdiv. ring.
    - destruct b; cbn [mul]; try (rewrite eval_prod_safe; simpl; ring); try (simpl; ring).
      rewrite eval_prod_safe. simpl. rewrite <- (eval_prod es). simpl. ring.
    - destruct b; cbn [mul]; try (rewrite eval_mk_frac, IHn; simpl; unfold Qdiv; ring); try (simpl; ring).
      rewrite eval_mk_frac, IHn, IHd. simpl. unfold Qdiv. rewrite Qinv_mult_distr. ring.
    - destruct b; simpl; ring.
    - destruct b; simpl; ring.
    - induction b as [pop' ch' pa'|es' _|e' rs' _|n' d' IHn' _| | |dm' cd'|k'] using expr_ind'; cbn [mul];
        try (rewrite eval_prod_safe; simpl; ring); try (simpl; ring).
      + rewrite eval_prod_safe. simpl. rewrite <- (eval_prod es'). simpl. ring.
      + rewrite eval_mk_frac, IHn'. simpl. unfold Qdiv. ring.
    - destruct b; simpl; ring.
  Qed.

  (* __truediv__ of every class denotes division *)
  Theorem eval_truediv : forall b a, eval m (truediv a b) r == eval m a r / eval m b r.
  Proof.
    induction b as [pop ch pa|es _|e rs _|n d IHn _| | |dm cd|k] using expr_ind'; intros a;
      destruct a; cbn [truediv]; try (rewrite eval_mk_frac; reflexivity);
      try (rewrite eval_mk_frac, !eval_mul; cbn [eval]; unfold Qdiv; try rewrite !Qinv_mult_distr; try rewrite Qinv_involutive; ring);
      try (cbn [eval]; unfold Qdiv; try change (/ 0) with 0; try change (/ 1) with 1; ring);
      try (rewrite IHn, eval_mul; cbn [eval]; unfold Qdiv; rewrite Qinv_mult_distr, Qinv_involutive; ring).
  Qed.

  (* ---------------------------------------------------------------- sums *)

  Lemma qsum_ext {T} (f g : T -> Q) l : (forall x, In x l -> f x == g x) -> qsum (map f l) == qsum (map g l).
  Proof.
    induction l as [|a t IH]; intros H; simpl; [reflexivity|]. rewrite (H a (or_introl eq_refl)), IH; [reflexivity|].
    intros x Hx. apply H. right. exact Hx.
  Qed.

  Lemma qsum_zero {T} (l : list T) : qsum (map (fun _ => 0) l) == 0.
  Proof. induction l as [|a t IH]; simpl; [reflexivity|]. rewrite IH. ring. Qed.

  Lemma qsum_scale {T} (f : T -> Q) c l : qsum (map (fun x => c * f x) l) == c * qsum (map f l).
  Proof. induction l as [|a t IH]; simpl; [ring|]. rewrite IH. ring. Qed.

  Lemma qsum_plus {T} (f g : T -> Q) l : qsum (map (fun x => f x + g x) l) == qsum (map f l) + qsum (map g l).
  Proof. induction l as [|a t IH]; simpl; [ring|]. rewrite IH. ring. Qed.
End SemP.

Section SumP.
  Variable m : model.

  Lemma sum_over_ext names : forall (f g : env -> Q) r, (forall r', f r' == g r') -> sum_over m names f r == sum_over m names g r.
  Proof.
    induction names as [|n t IH]; intros f g r H; simpl; [apply H|]. apply qsum_ext. intros x _. apply IH. exact H.
  Qed.

  Lemma sum_over_zero names : forall r, sum_over m names (fun _ => 0) r == 0.
  Proof.
    induction names as [|n t IH]; intros r; simpl; [reflexivity|].
    rewrite (qsum_ext _ (fun _ => 0)); [apply qsum_zero|]. intros x _. apply IH.
  Qed.

  Lemma sum_over_scale names : forall (f : env -> Q) c r, sum_over m names (fun r' => c * f r') r == c * sum_over m names f r.
  Proof.
    induction names as [|n t IH]; intros f c r; simpl; [reflexivity|].
    rewrite <- qsum_scale. apply qsum_ext. intros x _. apply IH.
  Qed.

  (* Sum.safe without simplification: the sum of the summand over the (sorted, duplicate-free) range set *)
  Theorem eval_sum_safe e rs r :
    existsb bad_range (upgrade_ordering rs) = false ->
    eval m (sum_safe e rs false) r == sum_over m (map vn (upgrade_ordering rs)) (eval m e) r.
  Proof.
    intros Hb. unfold sum_safe, sum_safe_gen. destruct (is_err e) eqn:Ee.
    - rewrite (sum_over_ext _ (eval m e) (fun _ => 0)); [rewrite sum_over_zero; apply eval_err; exact Ee|]. intros r'. apply eval_err. exact Ee.
    - destruct (upgrade_ordering rs) as [|x t] eqn:Eu; [reflexivity|]. destruct (is_zero e) eqn:Ez.
      + rewrite (sum_over_ext _ (eval m e) (fun _ => 0)); [rewrite sum_over_zero; apply eval_zero; exact Ez|]. intros r'. apply eval_zero. exact Ez.
      + rewrite Hb. reflexivity.
  Qed.

  Theorem eval_marginalize e rs r :
    existsb bad_range (upgrade_ordering (map get_base rs)) = false ->
    eval m (marginalize e rs) r == sum_over m (map vn (upgrade_ordering (map get_base rs))) (eval m e) r.
  Proof. apply eval_sum_safe. Qed.

  Theorem eval_normalize_marginalize e rs r :
    existsb bad_range (upgrade_ordering (map get_base rs)) = false ->
    eval m (normalize_marginalize e rs) r == eval m e r / sum_over m (map vn (upgrade_ordering (map get_base rs))) (eval m e) r.
  Proof. intros H. unfold normalize_marginalize. rewrite eval_truediv, eval_marginalize by exact H. reflexivity. Qed.
End SumP.

Section FracP.
  Variable m : model.
  Variable r : env.

  Lemma qprod_eval_cons x t : qprod (eval_list m (x :: t) r) == eval m x r * qprod (eval_list m t r).
  Proof. reflexivity. Qed.

  Lemma cancel_one_spec x : forall den den',
    cancel_one x den = Some den' -> qprod (eval_list m den r) == eval m x r * qprod (eval_list m den' r).
  Proof.
    induction den as [|d t IH]; intros den' H; [discriminate|]. cbn [cancel_one] in H. destruct (expr_eqb x d) eqn:E.
    - inversion H; subst. apply expr_eqb_true in E. subst. reflexivity.
    - destruct (cancel_one x t) as [t'|] eqn:Ec; [|discriminate]. inversion H; subst.
      rewrite !qprod_eval_cons, (IH t' eq_refl). ring.
  Qed.

  Lemma helper_spec : forall num den,
    exists c, qprod (eval_list m num r) == c * qprod (eval_list m (fst (simplify_parts_helper num den)) r) /\
              qprod (eval_list m den r) == c * qprod (eval_list m (snd (simplify_parts_helper num den)) r).
  Proof.
    induction num as [|x t IH]; intros den; cbn [simplify_parts_helper].
    - exists 1. cbn [fst snd]. split; [cbn; ring|ring].
    - destruct (cancel_one x den) as [den'|] eqn:Ec.
      + destruct (IH den') as [c [H1 H2]]. exists (eval m x r * c). split.
        * rewrite qprod_eval_cons, H1. ring.
        * rewrite (cancel_one_spec _ _ _ Ec), H2. ring.
      + destruct (IH den) as [c [H1 H2]]. exists c. cbn [fst snd]. split; [|exact H2].
        rewrite !qprod_eval_cons, H1. ring.
  Qed.

  Theorem eval_simplify_parts num den :
    ~ qprod (eval_list m den r) == 0 ->
    eval m (simplify_parts num den) r == qprod (eval_list m num r) / qprod (eval_list m den r).
  Proof.
    intros Hnz. unfold simplify_parts. destruct (helper_spec num den) as [c [H1 H2]].
    assert (Hc : ~ c == 0). { intros F. apply Hnz. rewrite H2, F. ring. }
    assert (Hd : ~ qprod (eval_list m (snd (simplify_parts_helper num den)) r) == 0). { intros F. apply Hnz. rewrite H2, F. ring. }
    rewrite H1, H2.
    destruct (fst (simplify_parts_helper num den)) as [|n0 nt] eqn:En; destruct (snd (simplify_parts_helper num den)) as [|d0 dt] eqn:Ed.
    - change (qprod (eval_list m [] r)) with 1. cbn [eval]. field. exact Hc.
    - change (qprod (eval_list m [] r)) with 1. rewrite eval_truediv, eval_prod_safe. cbn [eval]. field. split; [exact Hd|exact Hc].
    - change (qprod (eval_list m [] r)) with 1. rewrite eval_prod_safe. field. exact Hc.
    - rewrite eval_mk_frac, !eval_prod_safe. field. split; [exact Hd|exact Hc].
  Qed.

  Lemma qprod_single e : qprod (eval_list m [e] r) == eval m e r.
  Proof. cbn. ring. Qed.

  Lemma Qdiv_nonzero a b : ~ a / b == 0 -> ~ a == 0 /\ ~ b == 0.
  Proof.
    intros H. split; intros F; apply H; rewrite F; [unfold Qdiv; ring|apply Qdiv_0_r].
  Qed.

  Lemma mk_frac_cond a b :
    ~ eval m b r == 0 -> match mk_frac a b with EFrac _ d' => ~ eval m d' r == 0 | _ => True end.
  Proof.
    intros Hb. unfold mk_frac, first_err. cbn [find]. destruct (is_err a) eqn:Ea; [destruct a; try discriminate; exact I|].
    destruct (is_err b) eqn:Eb; [destruct b; try discriminate; exact I|]. destruct (is_zero b); [exact I|exact Hb].
  Qed.

  Lemma fs_tail n d :
    ~ eval m d r == 0 ->
    eval m (if expr_eqb n d then EOne
            else match n, d with
                 | EProd ns, EProd ds => simplify_parts ns ds
                 | EProd ns, _ => simplify_parts ns [d]
                 | _, EProd ds => simplify_parts [n] ds
                 | _, _ => EFrac n d
                 end) r == eval m n r / eval m d r.
  Proof.
    intros He. destruct (expr_eqb n d) eqn:E4; [apply expr_eqb_true in E4; subst; cbn [eval]; field; exact He|].
    destruct n, d; try reflexivity;
      try (rewrite eval_simplify_parts; [rewrite ?qprod_single, <- ?eval_prod; reflexivity|rewrite ?qprod_single, <- ?eval_prod; exact He]).
  Qed.

  Theorem eval_frac_simplify_fuel fuel : forall e,
    (match e with EFrac _ d => ~ eval m d r == 0 | _ => True end) ->
    eval m (frac_simplify_fuel fuel e) r == eval m e r.
  Proof.
    induction fuel as [|f IH]; intros e He; destruct e as [| | |n d| | | |]; try reflexivity; cbn [frac_simplify_fuel].
    - destruct (is_one d) eqn:E1; [cbn [eval]; rewrite (eval_one m r d E1); field|].
      destruct (is_zero n) eqn:E2; [cbn [eval]; rewrite (eval_zero m r n E2); unfold Qdiv; ring|].
      destruct (is_one n) eqn:E3; [destruct d; reflexivity|]. apply fs_tail. exact He.
    - destruct (is_one d) eqn:E1; [cbn [eval]; rewrite (eval_one m r d E1); field|].
      destruct (is_zero n) eqn:E2; [cbn [eval]; rewrite (eval_zero m r n E2); unfold Qdiv; ring|].
      destruct (is_one n) eqn:E3; [|apply fs_tail; exact He].
      destruct d as [| | |dn dd| | | |]; try reflexivity.
      cbn [eval] in He. destruct (Qdiv_nonzero _ _ He) as [Hdn Hdd].
      rewrite IH.
      + unfold frac_flip. rewrite eval_mk_frac. cbn [eval]. rewrite (eval_one m r n E3). field. split; assumption.
      + unfold frac_flip. apply mk_frac_cond. exact Hdn.
  Qed.

  (* Fraction.simplify keeps the value whenever the denominator is not zero *)
  Theorem eval_frac_simplify n d : ~ eval m d r == 0 -> eval m (frac_simplify (EFrac n d)) r == eval m n r / eval m d r.
  Proof. intros H. unfold frac_simplify. rewrite eval_frac_simplify_fuel; [reflexivity|exact H]. Qed.
End FracP.
