(* C06 for ID: every estimand the ID model returns is built from plain observational probability terms over the
   nodes of the input graph (or is an error value, which the implementation raises instead of returning). *)
From Coq Require Import List Bool Arith Permutation Relations.
From Y0 Require Import Base.ListSet Graph.Closure Graph.MixedGraph Dsl.Syntax Dsl.Text Dsl.Build Alg.Id Alg.Idc Alg.Vocab
  Proofs.ClosureP Proofs.SurgeryP Proofs.SortP Proofs.ExprP.
Import ListNotations.

Lemma firstn_incl_local {T} n (l : list T) x : In x (firstn n l) -> In x l.
Proof. intros H. rewrite <- (firstn_skipn n l). apply in_app_iff. left. exact H. Qed.
Lemma skipn_incl_local {T} n (l : list T) x : In x (skipn n l) -> In x l.
Proof. intros H. rewrite <- (firstn_skipn n l). apply in_app_iff. right. exact H. Qed.

Section VocabP.
  Variable N : list nat.

  Definition P (e : expr) : bool := is_err e || plain_obs N e.

  Lemma forallb_perm {T} (p : T -> bool) l l' : Permutation l l' -> forallb p l = true -> forallb p l' = true.
  Proof.
    intros Hp H. rewrite forallb_forall in *. intros x Hx. apply H. eapply Permutation_in; [apply Permutation_sym; exact Hp|exact Hx].
  Qed.

  Lemma forallb_dedup {T} `{EqB T} (p : T -> bool) l : forallb p l = true -> forallb p (dedup l) = true.
  Proof. intros Hl. rewrite forallb_forall in *. intros x Hx. apply Hl. apply (proj1 (In_dedup l x)). exact Hx. Qed.

  Lemma forallb_upgrade p l : forallb p l = true -> forallb p (upgrade_ordering l) = true.
  Proof.
    intros Hl. unfold upgrade_ordering, sorted_variables. eapply forallb_perm; [apply stable_sort_perm|]. apply forallb_dedup. exact Hl.
  Qed.

  Lemma plain_var_V n : In n N -> plain_var N (V n) = true.
  Proof. intros Hn. unfold plain_var, V. cbn. apply mem_In in Hn. rewrite Hn. reflexivity. Qed.

  Lemma plain_vars_Vs l : incl l N -> forallb (plain_var N) (Vs l) = true.
  Proof.
    intros Hl. unfold Vs. apply forallb_forall. intros v Hv. apply in_map_iff in Hv. destruct Hv as [n [<- Hn]].
    apply plain_var_V. apply Hl. exact Hn.
  Qed.

  Lemma plain_var_not_bad v : plain_var N v = true -> bad_range v = false.
  Proof.
    unfold plain_var, bad_range. rewrite !andb_true_iff. intros [[[Hk _] _] _]. apply eqb_true in Hk. rewrite Hk. reflexivity.
  Qed.

  Lemma P_err k : P (EErr k) = true. Proof. reflexivity. Qed.

  Lemma P_cases e : P e = true -> is_err e = true \/ (is_err e = false /\ plain_obs N e = true).
  Proof. unfold P. destruct (is_err e); simpl; auto. Qed.

  (* ---------------------------------------------------------------- constructors preserve P *)

  Lemma P_sum_safe e rs : P e = true -> forallb (plain_var N) rs = true -> P (sum_safe e rs false) = true.
  Proof.
    intros He Hrs. unfold sum_safe, sum_safe_gen. destruct (P_cases e He) as [Herr|[Hne Hpl]]; [rewrite Herr; exact He|].
    rewrite Hne. pose proof (forallb_upgrade _ _ Hrs) as Hup. destruct (upgrade_ordering rs) as [|r t] eqn:Eu; [exact He|].
    destruct (is_zero e); [exact He|].
    assert (Hb : existsb bad_range (r :: t) = false).
    { destruct (existsb bad_range (r :: t)) eqn:Eb; [|reflexivity]. apply existsb_exists in Eb. destruct Eb as [x [Hx Hbx]].
      rewrite forallb_forall in Hup. rewrite (plain_var_not_bad x (Hup x Hx)) in Hbx. discriminate. }
    rewrite Hb. unfold P. cbn [is_err plain_obs orb]. rewrite Hpl, Hup. reflexivity.
  Qed.

  Lemma first_err_P es : forallb P es = true -> match first_err es with Some e => P e = true | None => forallb (plain_obs N) es = true end.
  Proof.
    unfold first_err. induction es as [|x t IH]; intros H; [reflexivity|]. cbn [forallb] in H. apply andb_true_iff in H. destruct H as [Hx Ht].
    cbn [find]. destruct (is_err x) eqn:Ex; [exact Hx|]. specialize (IH Ht). destruct (find is_err t); [exact IH|].
    cbn [forallb]. unfold P in Hx. rewrite Ex in Hx. cbn in Hx. rewrite Hx. exact IH.
  Qed.

  Lemma P_prod_safe es : forallb P es = true -> P (prod_safe es) = true.
  Proof.
    intros H. unfold prod_safe, prod_safe_gen. pose proof (first_err_P es H) as Hf. destruct (first_err es); [exact Hf|].
    assert (Hfil : forallb (plain_obs N) (filter (fun e => negb (is_one e)) es) = true).
    { rewrite forallb_forall in *. intros x Hx. apply filter_In in Hx. apply Hf. tauto. }
    destruct (existsb is_zero _); [reflexivity|].
    destruct (filter (fun e => negb (is_one e)) es) as [|x [|y t]] eqn:Ef; [reflexivity| |].
    - cbn [forallb] in Hfil. apply andb_true_iff in Hfil. unfold P. rewrite (proj1 Hfil). apply orb_true_r.
    - unfold P. cbn [is_err plain_obs orb]. eapply forallb_perm; [apply stable_sort_perm|exact Hfil].
  Qed.

  Lemma P_mk_frac n d : P n = true -> P d = true -> P (mk_frac n d) = true.
  Proof.
    intros Hn Hd. unfold mk_frac, first_err. cbn [find]. destruct (is_err n) eqn:En; [exact Hn|]. destruct (is_err d) eqn:Ed; [exact Hd|].
    destruct (is_zero d); [reflexivity|]. unfold P in *. rewrite En in Hn. rewrite Ed in Hd. cbn in Hn, Hd. cbn [is_err plain_obs orb]. rewrite Hn, Hd. reflexivity.
  Qed.

  Lemma P_plain_prod es : P (EProd es) = true -> forallb P es = true.
  Proof.
    unfold P at 1. cbn [is_err plain_obs orb]. intros H. rewrite forallb_forall in *. intros x Hx. unfold P. rewrite (H x Hx). apply orb_true_r.
  Qed.

  Lemma forallb_app_intro {T} (p : T -> bool) l1 l2 : forallb p l1 = true -> forallb p l2 = true -> forallb p (l1 ++ l2) = true.
  Proof. intros H1 H2. rewrite forallb_app, H1, H2. reflexivity. Qed.

  Lemma P_frac_parts n d : P (EFrac n d) = true -> P n = true /\ P d = true.
  Proof.
    unfold P at 1. cbn [is_err plain_obs orb]. intros H. apply andb_true_iff in H. destruct H as [Hn Hd]. unfold P. rewrite Hn, Hd. rewrite !orb_true_r. auto.
  Qed.

  Lemma P_mul : forall a b, P a = true -> P b = true -> P (mul a b) = true.
  Proof.
    induction a as [pop ch pa|es IHes|e rs IHe|n d IHn IHd| | |dm cd|k] using expr_ind'; intros b Ha.
    - (* atom *)
      induction b as [pop' ch' pa'|es' _|e' rs' _|n' d' IHn' _| | |dm' cd'|k'] using expr_ind'; intros Hb; cbn [mul]; try exact Hb; try exact Ha;
        try reflexivity.
      + apply P_prod_safe. cbn [forallb]. rewrite Ha, Hb. reflexivity.
      + apply P_prod_safe. cbn [forallb]. rewrite Ha. apply P_plain_prod. exact Hb.
      + apply P_prod_safe. cbn [forallb]. rewrite Ha, Hb. reflexivity.
      + destruct (P_frac_parts _ _ Hb) as [Hn' Hd']. apply P_mk_frac; [apply IHn'; exact Hn'|exact Hd'].
      + apply P_prod_safe. cbn [forallb]. rewrite Ha, Hb. reflexivity.
    - (* product *)
      pose proof (P_plain_prod _ Ha) as Hes.
      induction b as [pop' ch' pa'|es' _|e' rs' _|n' d' IHn' _| | |dm' cd'|k'] using expr_ind'; intros Hb; cbn [mul]; try exact Hb; try reflexivity.
      + apply P_prod_safe. apply forallb_app_intro; [exact Hes|]. cbn [forallb]. rewrite Hb. reflexivity.
      + apply P_prod_safe. apply forallb_app_intro; [exact Hes|apply P_plain_prod; exact Hb].
      + apply P_prod_safe. apply forallb_app_intro; [exact Hes|]. cbn [forallb]. rewrite Hb. reflexivity.
      + destruct (P_frac_parts _ _ Hb) as [Hn' Hd']. apply P_mk_frac; [apply IHn'; exact Hn'|exact Hd'].
      + apply P_prod_safe. apply forallb_app_intro; [exact Hes|]. cbn [forallb]. rewrite Hb. reflexivity.
      + apply P_prod_safe. apply forallb_app_intro; [exact Hes|]. cbn [forallb]. rewrite Hb. reflexivity.
    - (* sum *)
      intros Hb. destruct b; cbn [mul]; try exact Hb; try reflexivity;
        try (apply P_prod_safe; cbn [forallb]; rewrite Ha, Hb; reflexivity).
      apply P_prod_safe. cbn [forallb]. rewrite Ha. apply P_plain_prod. exact Hb.
    - (* fraction *)
      destruct (P_frac_parts _ _ Ha) as [Hn Hd]. intros Hb. destruct b; cbn [mul]; try exact Hb; try reflexivity;
        try (apply P_mk_frac; [apply IHn; assumption|exact Hd]).
      destruct (P_frac_parts _ _ Hb) as [Hn' Hd']. apply P_mk_frac; [apply IHn; assumption|apply IHd; assumption].
    - intros Hb. destruct b; exact Hb.
    - intros Hb. destruct b; cbn [mul]; try reflexivity; exact Hb.
    - (* Q factor: never plain *) unfold P in Ha. cbn in Ha. discriminate.
    - intros Hb. destruct b; reflexivity.
  Qed.

  Lemma P_truediv : forall b a, P a = true -> P b = true -> P (truediv a b) = true.
  Proof.
    induction b as [pop ch pa|es _|e rs _|n d IHn _| | |dm cd|k] using expr_ind'; intros a Ha Hb;
      destruct a; cbn [truediv]; try exact Ha; try exact Hb; try reflexivity;
      try (apply P_mk_frac; assumption);
      try (destruct (P_frac_parts _ _ Ha) as [Hn1 Hd1]; apply P_mk_frac; [exact Hn1|apply P_mul; assumption]);
      try (unfold P in Hb; cbn in Hb; discriminate);
      try (unfold P in Ha; cbn in Ha; discriminate).
    all: destruct (P_frac_parts _ _ Hb) as [Hn' Hd'].
    all: try (apply IHn; [apply P_mul; assumption|exact Hn']).
    all: try (destruct (P_frac_parts _ _ Ha) as [Hn1 Hd1]; apply P_mk_frac; apply P_mul; assumption).
  Qed.

  Lemma P_prob_plain ch pa : ch <> [] -> forallb (plain_var N) ch = true -> forallb (plain_var N) pa = true -> P (prob_raw None ch pa) = true.
  Proof. intros Hne Hc Hp. destruct ch; [congruence|]. unfold P. cbn [prob_raw is_err plain_obs orb]. rewrite Hc, Hp. reflexivity. Qed.

  Lemma index_nat_In v l i : index_nat v l = Some i -> In v l.
  Proof.
    revert i. induction l as [|x t IH]; intros i H; [discriminate|]. cbn [index_nat] in H. destruct (Nat.eqb x v) eqn:E.
    - apply Nat.eqb_eq in E. left. exact E.
    - destruct (index_nat v t); [|discriminate]. right. eapply IH. reflexivity.
  Qed.

  Lemma P_p_parents old child ordering est : incl ordering N -> P est = true -> P (p_parents old child ordering est) = true.
  Proof.
    intros Ho He. unfold p_parents. destruct (index_nat child ordering) as [i|] eqn:Ei; [|reflexivity].
    pose proof (Ho _ (index_nat_In _ _ _ Ei)) as Hc.
    destruct (old || is_marginal_of_joint est).
    - unfold prob_safe, dist_safe. cbn [fst snd]. apply P_prob_plain.
      + unfold sorted_variables, upgrade_ordering. cbn. intros F.
        pose proof (stable_sort_perm var_sort_lt (sorted_variables (dedup []) ++ [V child])) as Hp. unfold sorted_variables in Hp. rewrite F in Hp.
        apply Permutation_sym, Permutation_nil in Hp. destruct (stable_sort var_sort_lt (dedup [])); discriminate.
      + unfold sorted_variables. eapply forallb_perm; [apply stable_sort_perm|]. apply forallb_app_intro.
        * eapply forallb_perm; [apply stable_sort_perm|]. reflexivity.
        * cbn [forallb]. rewrite (plain_var_V _ Hc). reflexivity.
      + unfold sorted_variables. eapply forallb_perm; [apply stable_sort_perm|]. apply forallb_app_intro.
        * apply forallb_upgrade. apply plain_vars_Vs. intros x Hx. apply Ho. eapply firstn_incl_local; exact Hx.
        * eapply forallb_perm; [apply stable_sort_perm|]. reflexivity.
    - apply P_truediv; apply P_sum_safe; try exact He; apply plain_vars_Vs; intros x Hx; apply Ho.
      + eapply skipn_incl_local; exact Hx.
      + destruct Hx as [<-|Hx]; [apply (index_nat_In _ _ _ Ei)|eapply skipn_incl_local; exact Hx].
  Qed.

  (* ---------------------------------------------------------------- graphs whose names all lie in N *)

  Definition closedN (g : mg nat) : Prop :=
    incl (nodes g) N /\ (forall u v, In (u, v) (dir g) -> In u N /\ In v N) /\ (forall u v, In (u, v) (bid g) -> In u N /\ In v N).

  Lemma closed_from_edges ns ds bs :
    incl ns N -> (forall u v, In (u, v) ds -> In u N /\ In v N) -> (forall u v, In (u, v) bs -> In u N /\ In v N) ->
    closedN (from_edges ns ds bs).
  Proof.
    intros Hn Hd Hb. split; [|split; assumption]. intros v Hv. apply nodes_from_edges in Hv.
    destruct Hv as [Hv|[Hv|Hv]]; [apply Hn; exact Hv| |]; apply In_endpoints in Hv; destruct Hv as [[a b] [He Hv]]; simpl in Hv.
    - destruct (Hd _ _ He). destruct Hv; subst; assumption.
    - destruct (Hb _ _ He). destruct Hv; subst; assumption.
  Qed.

  Lemma closed_subgraph g S : closedN g -> incl S N -> closedN (subgraph g S).
  Proof.
    intros [Hn [Hd Hb]] HS. unfold subgraph. apply closed_from_edges; [exact HS| |]; intros u v H; apply In_include_adjacent in H.
    - apply Hd. tauto.
    - apply Hb. tauto.
  Qed.

  Lemma closed_remove_nodes g X : closedN g -> closedN (remove_nodes_from g X).
  Proof.
    intros [Hn [Hd Hb]]. unfold remove_nodes_from. apply closed_from_edges.
    - intros v Hv. apply In_diff in Hv. apply Hn. tauto.
    - intros u v H. apply In_exclude_adjacent in H. apply Hd. tauto.
    - intros u v H. apply In_exclude_adjacent in H. apply Hb. tauto.
  Qed.

  Lemma reach_closed (es : list (nat * nat)) srcs :
    (forall u v, In (u, v) es -> In v N) -> incl srcs N -> incl (reach es srcs) N.
  Proof.
    intros He Hs y Hy. apply reach_spec in Hy. destruct Hy as [x [Hx Hr]]. apply Hs in Hx.
    unfold reachable in Hr. apply clos_rt_rt1n in Hr. induction Hr as [x|x z y Hxz _ IH]; [exact Hx|]. apply IH. eapply He. exact Hxz.
  Qed.

  Lemma ancestors_closed g Y : closedN g -> incl Y N -> incl (ancestors_inclusive g Y) N.
  Proof.
    intros [_ [Hd _]] HY. unfold ancestors_inclusive. apply reach_closed; [|exact HY].
    intros u v H. apply (proj1 (In_map_swap _ _ _)) in H. apply Hd in H. tauto.
  Qed.

  Lemma districts_aux_elems (g : mg nat) todo : forall acc D,
    In D (districts_aux g todo acc) -> In D acc \/ exists v, In v todo /\ D = district_of g v.
  Proof.
    induction todo as [|v t IH]; intros acc D HD; simpl in HD; [left; exact HD|].
    destruct (existsb (mem v) acc).
    - apply IH in HD. destruct HD as [HD|[w [Hw E]]]; [left; exact HD|right; exists w; split; [right; exact Hw|exact E]].
    - apply IH in HD. destruct HD as [HD|[w [Hw E]]].
      + apply in_app_iff in HD. destruct HD as [HD|[<-|[]]]; [left; exact HD|]. right. exists v. split; [left; reflexivity|reflexivity].
      + right. exists w. split; [right; exact Hw|exact E].
  Qed.

  Lemma district_closed g D : closedN g -> In D (districts g) -> incl D N.
  Proof.
    intros [Hn [_ Hb]] HD. unfold districts in HD. apply districts_aux_elems in HD. destruct HD as [[]|[v [Hv ->]]].
    unfold district_of. apply reach_closed.
    - intros a b H. unfold sym in H. apply in_app_iff in H. destruct H as [H|H]; [apply Hb in H; tauto|].
      apply (proj1 (In_map_swap _ _ _)) in H. apply Hb in H. tauto.
    - intros x [<-|[]]. apply Hn. exact Hv.
  Qed.

  (* ---------------------------------------------------------------- the ID recursion *)

  Theorem identify_vocab old topo fuel : forall I,
    closedN (ig I) -> incl (iout I) N -> P (iest I) = true ->
    forall e, identify old topo fuel I = IdOk e -> P e = true.
  Proof.
    induction fuel as [|f IH]; intros I Hg HY He e H; [discriminate|]. cbn [identify] in H.
    pose proof Hg as [Hn _].
    destruct (itr I) as [|x xs] eqn:EX.
    { inversion H; subst. unfold line_1. apply P_sum_safe; [exact He|]. apply plain_vars_Vs. intros v Hv. apply In_diff in Hv. apply Hn. tauto. }
    destruct (negb (is_nil (diff (nodes (ig I)) (ancestors_inclusive (ig I) (iout I))))).
    { eapply IH; [| | |exact H]; unfold line_2; cbn [ig iout iest].
      - apply closed_subgraph; [exact Hg|apply ancestors_closed; assumption].
      - exact HY.
      - apply P_sum_safe; [exact He|]. apply plain_vars_Vs. intros v Hv. apply In_diff in Hv. apply Hn. tauto. }
    destruct (negb (is_nil (get_no_effect_on_outcomes (ig I) (x :: xs) (iout I)))).
    { eapply IH; [| | |exact H]; unfold line_3; cbn [ig iout iest]; assumption. }
    destruct (negb (is_connected (remove_nodes_from (ig I) (x :: xs)))).
    { destruct (find _ (map (identify old topo f) (line_4 I))) as [c|] eqn:Ef.
      - apply find_some in Ef. destruct Ef as [_ Hc]. rewrite H in Hc. discriminate.
      - destruct (existsb _ (map (identify old topo f) (line_4 I))); [discriminate|]. inversion H; subst.
        apply P_sum_safe.
        + apply P_prod_safe. apply forallb_forall. intros e' He'. apply in_flat_map in He'. destruct He' as [r [Hr Hin]].
          destruct r as [e''| |k]; [|destruct Hin|destruct Hin]. destruct Hin as [<-|[]]. apply in_map_iff in Hr. destruct Hr as [J [HJ HinJ]].
          unfold line_4 in HinJ. apply in_map_iff in HinJ. destruct HinJ as [D [<- HD]].
          eapply IH; [| | |exact HJ]; cbn [ig iout iest]; [exact Hg| |exact He].
          rewrite EX in HD. eapply district_closed; [apply closed_remove_nodes; exact Hg|exact HD].
        + apply plain_vars_Vs. intros v Hv. apply In_diff in Hv. apply Hn. tauto. }
    destruct (is_connected (ig I)); [discriminate|].
    destruct (districts (remove_nodes_from (ig I) (x :: xs))) as [|S0 [|? ?]] eqn:ES; try discriminate.
    assert (HS0 : incl S0 N).
    { eapply district_closed; [apply closed_remove_nodes; exact Hg|]. rewrite ES. left. reflexivity. }
    assert (Htopo : forall o, is_topo (ig I) o = true -> incl o N).
    { intros o Ho. unfold is_topo in Ho. rewrite !andb_true_iff in Ho. destruct Ho as [[_ Hs] _]. apply set_eqb_equiv in Hs.
      intros v Hv. apply Hn. apply Hs. exact Hv. }
    destruct (existsb (set_eqb S0) (districts (ig I))).
    { unfold with_order in H. destruct (topo (ig I)) as [o|]; [|discriminate]. destruct (is_topo (ig I) o) eqn:Eo; [|discriminate].
      inversion H; subst. apply P_sum_safe.
      - apply P_prod_safe. apply forallb_forall. intros e' He'. apply in_map_iff in He'. destruct He' as [v [<- _]].
        apply P_p_parents; [apply Htopo; exact Eo|exact He].
      - apply plain_vars_Vs. intros v Hv. apply In_diff in Hv. apply HS0. tauto. }
    destruct (find _ (districts (ig I))) as [D|] eqn:Ef; [|discriminate].
    unfold with_order in H. destruct (topo (ig I)) as [o|]; [|discriminate]. destruct (is_topo (ig I) o) eqn:Eo; [|discriminate].
    apply find_some in Ef. destruct Ef as [HD _].
    eapply IH; [| | |exact H]; cbn [ig iout iest].
    - apply closed_subgraph; [exact Hg|eapply district_closed; eassumption].
    - exact HY.
    - apply P_prod_safe. apply forallb_forall. intros e' He'. apply in_map_iff in He'. destruct He' as [v [<- _]].
      apply P_p_parents; [apply Htopo; exact Eo|exact He].
  Qed.
End VocabP.

(* the public entry point: for a well-formed graph the estimand mentions only nodes of that graph *)
Theorem identify_outcomes_vocab old topo (g : mg nat) X Y e :
  wf g -> incl Y (nodes g) ->
  identify_outcomes old topo g X Y = IdOk e -> is_err e = false -> plain_obs (nodes g) e = true.
Proof.
  intros [Hd Hb] HY H Hne. unfold identify_outcomes in H.
  assert (HP : P (nodes g) e = true).
  { eapply identify_vocab; [| | |exact H]; cbn [ig iout iest].
    - split; [apply incl_refl|]. split; intros u v Huv; [apply Hd in Huv|apply Hb in Huv]; exact Huv.
    - exact HY.
    - unfold prob_safe, dist_safe. cbn [fst snd].
      destruct (upgrade_ordering (Vs (nodes g) ++ [])) as [|c l] eqn:Eu; [reflexivity|].
      apply P_prob_plain; [discriminate| |reflexivity]. rewrite <- Eu. apply forallb_upgrade. rewrite app_nil_r.
      apply plain_vars_Vs. apply incl_refl. }
  unfold P in HP. rewrite Hne in HP. exact HP.
Qed.

(* IDC: every outcome (over all visiting orders of the conditions) has the same vocabulary *)
Theorem idc_vocab old topo (g : mg nat) fuel : forall X Y Z e,
  wf g -> incl Y (nodes g) -> incl Z (nodes g) ->
  In (IdOk e) (idc_all old topo fuel g X Y Z) -> is_err e = false -> plain_obs (nodes g) e = true.
Proof.
  induction fuel as [|f IH]; intros X Y Z e Hw HY HZ Hin Hne; [destruct Hin as [F|[]]; discriminate|].
  cbn [idc_all] in Hin.
  destruct (filter (rule_2_of_do_calculus_applies g X Y Z) Z) as [|z0 zs] eqn:Ef.
  - destruct Hin as [Hin|[]]. unfold idc_final in Hin.
    destruct (identify old topo (fuel_for g) _) as [e0| |k] eqn:Eid; try discriminate. inversion Hin; subst.
    assert (HP : P (nodes g) e0 = true).
    { destruct Hw as [Hd Hb]. eapply identify_vocab; [| | |exact Eid]; cbn [ig iout iest].
      - split; [apply incl_refl|]. split; intros u v Huv; [apply Hd in Huv|apply Hb in Huv]; exact Huv.
      - intros v Hv. unfold union in Hv. apply In_dedup_acc in Hv. destruct Hv; auto.
      - unfold prob_safe, dist_safe. cbn [fst snd].
        destruct (upgrade_ordering (Vs (nodes g) ++ [])) as [|c l] eqn:Eu; [reflexivity|].
        apply P_prob_plain; [discriminate| |reflexivity]. rewrite <- Eu. apply forallb_upgrade. rewrite app_nil_r.
        apply plain_vars_Vs. apply incl_refl. }
    assert (HP2 : P (nodes g) (normalize_marginalize e0 (Vs Y)) = true).
    { unfold normalize_marginalize, marginalize. apply P_truediv; [exact HP|]. apply P_sum_safe; [exact HP|].
      apply forallb_forall. intros v Hv. apply in_map_iff in Hv. destruct Hv as [w [<- Hw']]. unfold Vs in Hw'. apply in_map_iff in Hw'.
      destruct Hw' as [n [<- Hn]]. apply plain_var_V. apply HY. exact Hn. }
    unfold P in HP2. rewrite Hne in HP2. exact HP2.
  - apply in_flat_map in Hin. destruct Hin as [z [Hz Hin]].
    assert (HzZ : In z Z). { rewrite <- Ef in Hz. apply filter_In in Hz. tauto. }
    eapply IH; [exact Hw|exact HY| |exact Hin|exact Hne]. intros v Hv. apply In_diff in Hv. apply HZ. tauto.
Qed.
