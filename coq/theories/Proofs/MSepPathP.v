(* C04: every active PATH of the textbook definition (simple path in the skeleton of the latent DAG; a collider must be
   an ancestor of the conditioning set, a non-collider must lie outside it) gives an active WALK. Hence a separation
   reported by are_d_separated is a d-separation in the textbook sense [d_separated_spec] as well. *)
From Coq Require Import List Bool Arith Lia Relations.
From Y0 Require Import Base.ListSet Graph.Closure Graph.Paths Graph.MixedGraph Graph.DSep Graph.MSep
  Proofs.ClosureP Proofs.SurgeryP Proofs.MSepP Proofs.MSepLatP.
Import ListNotations.

Definition last_is {T} (b : T) (l : list T) : Prop := exists pre, l = pre ++ [b].

Lemma last_is_one {T} (b x : T) : last_is b [x] -> x = b.
Proof.
  intros [pre E]. destruct pre as [|p pre]; cbn in E.
  - injection E as E. exact E.
  - injection E as _ E. destruct pre; discriminate.
Qed.

Lemma last_is_cons {T} (b x y : T) t : last_is b (x :: y :: t) -> last_is b (y :: t).
Proof. intros [pre E]. destruct pre as [|p pre]; cbn in E; inversion E as [[E1 E2]]. exists pre. exact E2. Qed.

Section SPaths.
  Context {A : Type} `{EqB A}.
  Variable adj : A -> list A.

  Inductive chainA : list A -> Prop :=
  | cha_one x : chainA [x]
  | cha_cons x y t : In y (adj x) -> chainA (y :: t) -> chainA (x :: y :: t).

  Lemma spaths_sound tgt fuel : forall path_rev cur p,
    In p (spaths fuel adj path_rev cur tgt) ->
    exists suf, p = rev path_rev ++ cur :: suf /\ chainA (cur :: suf) /\ last_is tgt (cur :: suf).
  Proof.
    induction fuel as [|f IH]; intros path_rev cur p Hp; cbn [spaths] in Hp.
    - destruct (eqb cur tgt) eqn:E; [|destruct Hp]. apply eqb_true in E. subst. destruct Hp as [<-|[]].
      exists []. cbn [rev]. repeat split; [constructor|exists []; reflexivity].
    - destruct (eqb cur tgt) eqn:E.
      + apply eqb_true in E. subst. destruct Hp as [<-|[]].
        exists []. cbn [rev]. repeat split; [constructor|exists []; reflexivity].
      + apply in_flat_map in Hp. destruct Hp as [n [Hn Hp]].
        destruct (mem n (cur :: path_rev)); [destruct Hp|].
        apply IH in Hp. destruct Hp as [suf [-> [Hc [pre Hl]]]]. exists (n :: suf). cbn [rev]. rewrite <- app_assoc.
        repeat split; [constructor; assumption|]. exists (cur :: pre). cbn. rewrite Hl. reflexivity.
  Qed.
End SPaths.

Lemma und_adj_sound {A} `{EqB A} (es : list (A * A)) x z : In z (und_adj es x) -> In (x, z) es \/ In (z, x) es.
Proof.
  unfold und_adj. rewrite In_dedup, in_flat_map. intros [[u v] [He Hz]]. cbn [fst snd] in Hz.
  destruct (eqb u x) eqn:E1.
  - apply eqb_true in E1. subst. destruct Hz as [<-|[]]. left. exact He.
  - destruct (eqb v x) eqn:E2; [|destruct Hz]. apply eqb_true in E2. subst. destruct Hz as [<-|[]]. right. exact He.
Qed.

Section PathWalk.
  Variable h : mg nat.
  Variables (a : nat) (C : list nat).
  Hypothesis a_notin : ~ In a C.
  Hypothesis no2 : forall u v, In (u, v) (dir h) -> ~ In (v, u) (dir h).
  Let es := dir h.
  Let anC := ancestors_inclusive h C.
  Notation R := (mreach h C a).

  (* the mark at v of the edge between u and v *)
  Definition hmark (u v : nat) : mark := if mem (u, v) es then Head else Tail.

  Lemma hmark_head u v : In (u, v) es -> hmark u v = Head.
  Proof. intros Hi. unfold hmark. rewrite (proj2 (mem_In _ _) Hi). reflexivity. Qed.
  Lemma hmark_tail u v : In (v, u) es -> hmark u v = Tail.
  Proof. intros Hi. unfold hmark. rewrite (proj2 (mem_false _ _) (no2 _ _ Hi)). reflexivity. Qed.

  Lemma through_collider x m : mem x anC = true -> R x m -> (In x C /\ R x m) \/ (~ In x C /\ R x Tail).
  Proof.
    intros Han Hr. destruct (mem x C) eqn:Ec; [left; split; [apply mem_In; exact Ec|exact Hr]|right].
    apply mem_false in Ec. split; [exact Ec|].
    apply mem_In in Han. apply ancestors_inclusive_spec in Han. destruct Han as [c [Hc Hp]].
    destruct (dpath_split h C x c Hp) as [y [Hy Hyc]].
    assert (HyC : In y C) by (destruct Hyc as [->|Hyc]; assumption).
    eapply bounce; eauto.
  Qed.

  Lemma follow : forall rest prev x b,
    chainA (und_adj es) (x :: rest) -> last_is b (x :: rest) ->
    triples_ok es anC C (prev :: x :: rest) = true ->
    R x (hmark prev x) -> exists m', R b m'.
  Proof.
    induction rest as [|z rest IH]; intros prev x b Hch Hl Hok Hr.
    - apply last_is_one in Hl. subst. eexists; exact Hr.
    - inversion Hch as [|? ? ? Hadj Hch']; subst. apply und_adj_sound in Hadj.
      cbn [triples_ok] in Hok. apply andb_true_iff in Hok. destruct Hok as [Hx Hok].
      apply (IH x z b Hch' (last_is_cons _ _ _ _ Hl) Hok).
      unfold is_collider in Hx. destruct (mem (prev, x) es) eqn:E1; cbn [andb] in Hx.
      + destruct (mem (z, x) es) eqn:E2.
        * (* collider *)
          apply mem_In in E1, E2. rewrite (hmark_head _ _ E1) in Hr. rewrite (hmark_tail _ _ E2).
          destruct (through_collider x Head Hx Hr) as [[Hc Hr']|[Hc Hr']].
          -- eapply mr_step; [exact Hr'|apply st_bwd; exact E2|exact Hc].
          -- eapply mr_step; [exact Hr'|apply st_bwd; exact E2|exact Hc].
        * (* arrowhead in, tail out *)
          apply negb_true_iff, mem_false in Hx. apply mem_false in E2.
          destruct Hadj as [Hxz|Hzx]; [|contradiction].
          rewrite (hmark_head _ _ Hxz). eapply mr_step; [exact Hr|apply st_fwd; exact Hxz|].
          destruct (hmark prev x); exact Hx.
      + (* tail in *)
        apply negb_true_iff, mem_false in Hx. unfold hmark in Hr. rewrite E1 in Hr.
        destruct Hadj as [Hxz|Hzx].
        * rewrite (hmark_head _ _ Hxz). eapply mr_step; [exact Hr|apply st_fwd; exact Hxz|exact Hx].
        * rewrite (hmark_tail _ _ Hzx). eapply mr_step; [exact Hr|apply st_bwd; exact Hzx|exact Hx].
  Qed.

  Lemma active_path_walk p b :
    chainA (und_adj es) p -> (exists rest, p = a :: rest) -> last_is b p -> triples_ok es anC C p = true -> m_connected h C a b.
  Proof.
    intros Hch [rest ->] Hl Hok. destruct rest as [|x rest].
    - apply last_is_one in Hl. subst. exists Tail. constructor.
    - inversion Hch as [|? ? ? Hadj Hch']; subst. apply und_adj_sound in Hadj.
      apply (follow rest a x b Hch' (last_is_cons _ _ _ _ Hl) Hok).
      destruct Hadj as [Hax|Hxa].
      + rewrite (hmark_head _ _ Hax). eapply mr_step; [constructor|apply st_fwd; exact Hax|exact a_notin].
      + rewrite (hmark_tail _ _ Hxa). eapply mr_step; [constructor|apply st_bwd; exact Hxa|exact a_notin].
  Qed.
End PathWalk.

Theorem spec_connected_walk (g : mg nat) a b C :
  wf g -> (forall u v, In (u, v) (dir g) -> ~ In (v, u) (dir g)) ->
  In a (nodes g) -> In b (nodes g) -> incl C (nodes g) -> ~ In a C ->
  d_connected_spec g a b C = true -> m_connected g C a b.
Proof.
  intros Hw Hno Ha Hb HC Hna Hspec. apply (m_connected_lat g Hw a C Ha HC b Hb).
  unfold d_connected_spec in Hspec. apply existsb_exists in Hspec. destruct Hspec as [p [Hp Hok]].
  unfold all_simple_paths_und in Hp. apply spaths_sound in Hp. destruct Hp as [suf [-> [Hch Hl]]]. cbn [rev app] in *.
  eapply active_path_walk; eauto.
  intros u v Huv Hvu. apply dirL in Huv. apply dirL in Hvu. destruct Huv as [Huv|Huv], Hvu as [Hvu|Hvu].
  - exact (Hno _ _ Huv Hvu).
  - apply (dir_lt g Hw) in Huv. apply lat_edge in Hvu. destruct Hvu as [i [_ [_ [_ [Hu _]]]]]. lia.
  - apply (dir_lt g Hw) in Hvu. apply lat_edge in Huv. destruct Huv as [i [_ [_ [_ [Hu _]]]]]. lia.
  - apply lat_edge in Huv. destruct Huv as [i [p [q [Hn [Hu Hx]]]]]. apply lat_edge in Hvu. destruct Hvu as [j [_ [_ [_ [Hv _]]]]].
    apply nth_error_In in Hn. apply (bid_lt g Hw) in Hn. destruct Hx; lia.
Qed.

(* a reported separation is a separation of the textbook specification *)
Corollary reported_separation_is_textbook (g : mg nat) a b C :
  wf g -> (forall u v, In (u, v) (dir g) -> ~ In (v, u) (dir g)) ->
  are_d_separated g a b C = DOk true -> d_separated_spec g a b C = true.
Proof.
  intros Hw Hno Hsep. unfold d_separated_spec. apply negb_true_iff. destruct (d_connected_spec g a b C) eqn:Hs; [|reflexivity]. exfalso.
  unfold are_d_separated in Hsep.
  destruct (mem a (nodes g) && mem b (nodes g) && subset C (nodes g)) eqn:E1; cbn [negb] in Hsep; [|discriminate].
  destruct (mem a C || mem b C) eqn:E2; [discriminate|].
  rewrite !andb_true_iff, !mem_In, subset_incl in E1. destruct E1 as [[Ha Hb] HC].
  apply orb_false_iff in E2. destruct E2 as [Ea Eb]. apply mem_false in Ea, Eb.
  injection Hsep as Hsep. apply negb_true_iff in Hsep.
  assert (Hc : m_connected g C a b) by (apply spec_connected_walk; assumption).
  apply (evidence_path_iff_connected g a b C Ea Eb) in Hc. congruence.
Qed.
