(* C15 in terms of true separation: through the correctness of are_d_separated (Proofs/MSepP.v) the listed judgements are
   m-separations of minimum size, and every pair that can be m-separated within the limit is listed. *)
From Coq Require Import List Bool Arith Lia.
From Y0 Require Import Base.ListSet Graph.MixedGraph Graph.DSep Graph.MSep Graph.CondInd
  Proofs.SurgeryP Proofs.CondIndP Proofs.DSepP Proofs.MSepP.
Import ListNotations.

Section CondIndSemP.
  Context {A : Type} `{EqB A}.
  Notation mg := (mg A).

  Definition valid_query (g : mg) (a b : A) (C : list A) : Prop :=
    In a (nodes g) /\ In b (nodes g) /\ incl C (nodes g) /\ ~ In a C /\ ~ In b C.

  Lemma dsep_verdict_iff (g : mg) a b C s :
    are_d_separated g a b C = DOk s <->
    valid_query g a b C /\ (if s then ~ m_connected g C a b else m_connected g C a b).
  Proof.
    unfold are_d_separated, valid_query.
    destruct (mem a (nodes g) && mem b (nodes g) && subset C (nodes g)) eqn:E1; cbn [negb].
    - rewrite !andb_true_iff, !mem_In, subset_incl in E1. destruct E1 as [[Ha Hb] HC].
      destruct (mem a C || mem b C) eqn:E2.
      + apply orb_true_iff in E2. rewrite !mem_In in E2. split; [discriminate|]. intros [[_ [_ [_ [Na Nb]]]] _]. tauto.
      + apply orb_false_iff in E2. destruct E2 as [Ea Eb]. apply mem_false in Ea, Eb.
        pose proof (evidence_path_iff_connected g a b C Ea Eb) as Hiff.
        destruct (ug_has_path (evidence_graph g (a :: b :: C) C) a b) eqn:Ep; cbn [negb]; destruct s; split;
          try discriminate; try (intros _; split; [tauto|]); try reflexivity.
        * intros [_ Hn]. exfalso. apply Hn. apply Hiff. reflexivity.
        * apply Hiff. reflexivity.
        * intros Hc. apply Hiff in Hc. discriminate.
        * intros [_ Hc]. apply Hiff in Hc. discriminate.
    - split; [discriminate|]. intros [[Ha [Hb [HC _]]] _].
      rewrite (proj2 (mem_In a (nodes g)) Ha), (proj2 (mem_In b (nodes g)) Hb), (proj2 (subset_incl C (nodes g)) HC) in E1.
      discriminate.
  Qed.

  Lemma valid_of_rest (g : mg) vs a b C :
    (forall x, In x vs <-> In x (nodes g)) -> In (a, b) (pairs vs) -> sublist C (rest_of vs a b) -> valid_query g a b C.
  Proof.
    intros Hvs Hp Hs. apply In_pairs in Hp. destruct Hp as [Ha Hb]. apply sublist_incl in Hs.
    repeat split; try (apply Hvs; assumption).
    - intros x Hx. apply Hvs. apply Hs in Hx. apply In_rest_of in Hx. tauto.
    - intros Hx. apply Hs in Hx. apply In_rest_of in Hx. tauto.
    - intros Hx. apply Hs in Hx. apply In_rest_of in Hx. tauto.
  Qed.

  Theorem listed_is_minimum_m_separation (g : mg) vs mc a b C :
    (forall x, In x vs <-> In x (nodes g)) ->
    In (a, b, C) (d_separations g vs mc) ->
    ~ m_connected g C a b /\
    (forall C', sublist C' (rest_of vs a b) -> length C' < length C -> m_connected g C' a b).
  Proof.
    intros Hvs Hin. apply d_separations_spec in Hin. destruct Hin as [Hp Hf].
    destruct (first_separator_sound g vs mc a b C Hf) as [Hs [Hl [Hd Hmin]]].
    split; [apply (dsep_verdict_iff g a b C true) in Hd; tauto|].
    intros C' Hs' Hl'. specialize (Hmin C' Hs' Hl').
    pose proof (valid_of_rest g vs a b C' Hvs Hp Hs') as Hv.
    destruct (are_d_separated g a b C') as [[|]| |] eqn:E.
    - congruence.
    - apply (dsep_verdict_iff g a b C' false) in E. tauto.
    - exfalso. destruct Hv as [Ha [Hb [HC [Na Nb]]]]. destruct (dsep_total g a b C' Ha Hb HC Na Nb) as [s Es]. congruence.
    - exfalso. destruct Hv as [Ha [Hb [HC [Na Nb]]]]. destruct (dsep_total g a b C' Ha Hb HC Na Nb) as [s Es]. congruence.
  Qed.

  Theorem m_separable_pair_is_listed (g : mg) vs mc a b :
    (forall x, In x vs <-> In x (nodes g)) ->
    In (a, b) (pairs vs) ->
    (exists C', sublist C' (rest_of vs a b) /\ length C' < stop_of mc (length (rest_of vs a b)) /\ ~ m_connected g C' a b) ->
    exists C, In (a, b, C) (d_separations g vs mc).
  Proof.
    intros Hvs Hp [C' [Hs [Hl Hn]]].
    destruct (first_separator_complete g vs mc a b) as [C HC].
    - exists C'. split; [exact Hs|]. split; [exact Hl|]. apply (dsep_verdict_iff g a b C' true). split; [|exact Hn].
      eapply valid_of_rest; eauto.
    - exists C. apply d_separations_spec. auto.
  Qed.
End CondIndSemP.
