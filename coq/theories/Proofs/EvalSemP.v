(* C12, meaning clause: for every printable expression over well-formed terms - nested divisions, fractions as factors of products,
   unsorted products included - parsing the printed form yields [reparse e], the expression obtained by applying y0's operators along
   the printed tree, and [reparse e] denotes the same function of the distribution and the variables' values as e, in every model. *)
From Coq Require Import List Bool Arith Lia String Ascii QArith.
From Y0 Require Import Base.ListSet Dsl.Syntax Dsl.Text Dsl.Tok Dsl.Print Dsl.Build Dsl.Canon Dsl.Parse Dsl.Sem
  Proofs.ExprP Proofs.SemP Proofs.CanonNfP Proofs.TokenizeP Proofs.ParseP Proofs.EvalP.
Import ListNotations.
Open Scope list_scope.

Fixpoint reparse (e : expr) : expr :=
  match e with
  | EProd es => match map reparse es with [] => EErr 8 | p :: ps => fold_left mul ps p end
  | ESum e' rs => sum_safe (reparse e') rs false
  | EFrac n d => truediv (reparse n) (reparse d)
  | _ => e
  end.

Fixpoint wf_sem (e : expr) : bool :=
  match e with
  | EProb pop ch pa =>
      match pop with Some p => wfvar p | None => true end && forallb wfvar ch && forallb wfvar pa
      && negb (is_nil ch) && eqb (upgrade_ordering ch) ch && eqb (upgrade_ordering pa) pa
  | EProd es => negb (is_nil es) && forallb (fun x => is_unit x && wf_sem x) es
  | ESum e' rs => wf_sem e' && forallb (fun v => plain_var v && name_ok (vn v)) rs && eqb (upgrade_ordering rs) rs
  | EFrac n d => wf_sem n && wf_sem d
  | EOne | EZero => true
  | EQ dom cod => negb (is_nil dom) && forallb wfvar dom && forallb wfvar cod && eqb (upgrade_ordering dom) dom && eqb (upgrade_ordering cod) cod
  | EErr _ => false
  end.

Lemma wf_sem_atom e : wf_sem e = true -> match e with EProb _ _ _ | EQ _ _ | EOne | EZero => wf_rt e = true | _ => True end.
Proof. destruct e; intros H; try exact I; try reflexivity; cbn [wf_sem wf_rt] in *; exact H. Qed.

Lemma eval_chain_sem : forall (rest : list expr) (a : ast) (p0 : expr),
  eval_ast a = VExpr p0 -> (forall x, In x rest -> eval_ast (ast_of x) = VExpr (reparse x)) ->
  eval_ast (fold_left (fun acc x => ABin "*" acc x) (map ast_of rest) a) = VExpr (fold_left mul (map reparse rest) p0).
Proof.
  induction rest as [|u t IH]; intros a p0 Ha Hall; [exact Ha|]. cbn [map fold_left]. apply IH.
  - cbn [eval_ast]. rewrite Ha, (Hall u (or_introl eq_refl)). reflexivity.
  - intros x Hx. apply Hall. right. exact Hx.
Qed.

Theorem eval_reparse : forall e, wf_sem e = true -> eval_ast (ast_of e) = VExpr (reparse e).
Proof.
  induction e as [pop ch pa|es IH|e rs IH|n d IHn IHd| | |dm cd|k] using expr_ind'; intros Hw.
  - apply (eval_ast_of (EProb pop ch pa)). exact (wf_sem_atom _ Hw).
  - cbn [wf_sem] in Hw. apply andb_true_iff in Hw. destruct Hw as [Hne Hall]. rewrite forallb_forall in Hall. rewrite Forall_forall in IH.
    assert (He : forall x, In x es -> eval_ast (ast_of x) = VExpr (reparse x)) by (intros x Hx; apply IH; [exact Hx|]; specialize (Hall x Hx); apply andb_true_iff in Hall; apply Hall).
    destruct es as [|u t]; [discriminate|]. cbn [ast_of map chain reparse].
    apply eval_chain_sem; [apply He; left; reflexivity|intros x Hx; apply He; right; exact Hx].
  - cbn [wf_sem] in Hw. repeat (apply andb_true_iff in Hw; destruct Hw as [Hw ?]).
    match goal with H : eqb (upgrade_ordering rs) rs = true |- _ => apply eqb_true in H; rename H into Frs end.
    match goal with H : forallb _ rs = true |- _ => rename H into Hplain end. rewrite forallb_forall in Hplain.
    assert (Hwv : forallb wfvar rs = true).
    { apply forallb_forall. intros v Hv. specialize (Hplain v Hv). apply andb_true_iff in Hplain. apply plain_wfvar; apply Hplain. }
    cbn [ast_of eval_ast map reparse]. rewrite (by_name_fixed rs Frs). rewrite (eval_vars rs Hwv). rewrite (IH Hw).
    change (lookup "Sum"%string) with (VSum None). unfold index. rewrite find_err_vars, flat_args_vars. reflexivity.
  - cbn [wf_sem] in Hw. apply andb_true_iff in Hw. destruct Hw as [Hn Hd]. cbn [ast_of eval_ast reparse]. rewrite (IHn Hn), (IHd Hd). reflexivity.
  - reflexivity.
  - reflexivity.
  - apply (eval_ast_of (EQ dm cd)). exact (wf_sem_atom _ Hw).
  - discriminate.
Qed.

Section Meaning.
  Variable m : model.

  Lemma eval_fold_mul r : forall ps p0, eval m (fold_left mul ps p0) r == eval m p0 r * qprod (eval_list m ps r).
  Proof.
    induction ps as [|p t IH]; intros p0; cbn [fold_left eval_list map qprod fold_right]; [ring|].
    rewrite IH. rewrite eval_mul. fold (eval_list m t r). fold (qprod (eval_list m t r)). ring.
  Qed.

  Theorem reparse_meaning : forall e, wf_sem e = true -> forall r, eval m (reparse e) r == eval m e r.
  Proof.
    induction e as [pop ch pa|es IH|e rs IH|n d IHn IHd| | |dm cd|k] using expr_ind'; intros Hw r; try reflexivity.
    - cbn [wf_sem] in Hw. apply andb_true_iff in Hw. destruct Hw as [Hne Hall]. rewrite forallb_forall in Hall. rewrite Forall_forall in IH.
      assert (He : forall x, In x es -> forall r', eval m (reparse x) r' == eval m x r') by (intros x Hx; apply IH; [exact Hx|]; specialize (Hall x Hx); apply andb_true_iff in Hall; apply Hall).
      destruct es as [|u t]; [discriminate|]. cbn [reparse map]. rewrite eval_fold_mul. rewrite eval_prod. cbn [eval_list map qprod fold_right].
      rewrite (He u (or_introl eq_refl) r). apply Qmult_comp; [reflexivity|].
      assert (Ht : forall x, In x t -> forall r', eval m (reparse x) r' == eval m x r') by (intros x Hx; apply He; right; exact Hx).
      clear - Ht. induction t as [|a t IHt]; [reflexivity|]. cbn [eval_list map qprod fold_right].
      rewrite (Ht a (or_introl eq_refl) r). apply Qmult_comp; [reflexivity|]. apply IHt. intros x Hx. apply Ht. right. exact Hx.
    - cbn [wf_sem] in Hw. repeat (apply andb_true_iff in Hw; destruct Hw as [Hw ?]).
      match goal with H : eqb (upgrade_ordering rs) rs = true |- _ => apply eqb_true in H; rename H into Frs end.
      match goal with H : forallb _ rs = true |- _ => rename H into Hplain end. rewrite forallb_forall in Hplain.
      cbn [reparse]. rewrite eval_sum_safe.
      + rewrite Frs. cbn [eval]. apply sum_over_ext. intros r'. apply IH. exact Hw.
      + rewrite Frs. apply existsb_none. intros v Hv. specialize (Hplain v Hv). apply andb_true_iff in Hplain. apply plain_not_bad'. apply Hplain.
    - cbn [wf_sem] in Hw. apply andb_true_iff in Hw. destruct Hw as [Hn Hd]. cbn [reparse eval]. rewrite eval_truediv, (IHn Hn r), (IHd Hd r). reflexivity.
  Qed.
End Meaning.

Lemma wf_sem_names : forall e, wf_sem e = true -> names_ok e = true.
Proof.
  induction e as [pop ch pa|es IH|e rs IH|n d IHn IHd| | |dm cd|k] using expr_ind'; intros Hw; try reflexivity.
  - apply (wf_rt_names (EProb pop ch pa)). exact (wf_sem_atom _ Hw).
  - cbn [wf_sem] in Hw. apply andb_true_iff in Hw. destruct Hw as [_ Hall]. cbn [names_ok].
    rewrite forallb_forall in *. rewrite Forall_forall in IH. intros x Hx. apply IH; [exact Hx|]. specialize (Hall x Hx). apply andb_true_iff in Hall. apply Hall.
  - cbn [wf_sem] in Hw. repeat (apply andb_true_iff in Hw; destruct Hw as [Hw ?]). cbn [names_ok]. rewrite (IH Hw). cbn [andb].
    match goal with H : forallb _ rs = true |- _ => rename H into Hplain end. rewrite forallb_forall in *. intros v Hv. specialize (Hplain v Hv).
    apply andb_true_iff in Hplain. apply wfvar_names. apply plain_wfvar; apply Hplain.
  - cbn [wf_sem] in Hw. apply andb_true_iff in Hw. destruct Hw as [Hn Hd]. cbn [names_ok]. rewrite (IHn Hn), (IHd Hd). reflexivity.
  - apply (wf_rt_names (EQ dm cd)). exact (wf_sem_atom _ Hw).
Qed.

Lemma wf_sem_printable : forall e, wf_sem e = true -> printable e = true.
Proof.
  induction e as [pop ch pa|es IH|e rs IH|n d IHn IHd| | |dm cd|k] using expr_ind'; intros Hw; try reflexivity.
  - apply (wf_rt_printable (EProb pop ch pa)). exact (wf_sem_atom _ Hw).
  - cbn [wf_sem] in Hw. apply andb_true_iff in Hw. destruct Hw as [Hne Hall]. cbn [printable]. rewrite Hne. cbn [andb].
    rewrite forallb_forall in *. rewrite Forall_forall in IH. intros x Hx. specialize (Hall x Hx). apply andb_true_iff in Hall. destruct Hall as [Hu Hx'].
    rewrite Hu, (IH x Hx Hx'). reflexivity.
  - cbn [wf_sem] in Hw. repeat (apply andb_true_iff in Hw; destruct Hw as [Hw ?]). cbn [printable]. apply IH. exact Hw.
  - cbn [wf_sem] in Hw. apply andb_true_iff in Hw. destruct Hw as [Hn Hd]. cbn [printable]. rewrite (IHn Hn), (IHd Hd). reflexivity.
  - discriminate.
Qed.

(* parsing the printed form applies y0's operators along the printed tree, and the result means what the object means *)
Theorem parse_meaning e : wf_sem e = true ->
  parse_y0 (to_y0 e) = reparse e /\ forall m r, eval m (parse_y0 (to_y0 e)) r == eval m e r.
Proof.
  intros Hw. assert (E : parse_y0 (to_y0 e) = reparse e).
  { unfold parse_y0. rewrite (parse_printed e (wf_sem_names e Hw) (wf_sem_printable e Hw)). rewrite (eval_reparse e Hw). reflexivity. }
  split; [exact E|]. intros m r. rewrite E. apply reparse_meaning. exact Hw.
Qed.
