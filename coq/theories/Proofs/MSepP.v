(* C04: the moralisation test of are_d_separated decides m-connection (Graph/MSep.v) - for every mixed graph,
   cyclic or not, every pair of nodes and every conditioning set. *)
From Coq Require Import List Bool Arith Lia Relations.
From Y0 Require Import Base.ListSet Graph.Closure Graph.MixedGraph Graph.DSep Graph.MSep
  Proofs.ClosureP Proofs.SurgeryP Proofs.DistrictsP.
Import ListNotations.

Lemma clos_rt_mono {T} (R1 R2 : T -> T -> Prop) x y :
  (forall u v, R1 u v -> R2 u v) -> clos_refl_trans T R1 x y -> clos_refl_trans T R2 x y.
Proof.
  intros Hi Hr. induction Hr as [u v Huv| |u v w _ IH1 _ IH2]; [apply rt_step; auto|apply rt_refl|eapply rt_trans; eauto].
Qed.

Section MSepP.
  Context {A : Type} `{EqB A}.
  Notation mg := (mg A).
  Variable g : mg.
  Variables (a b : A) (C : list A).
  Hypothesis a_notin : ~ In a C.
  Hypothesis b_notin : ~ In b C.

  Let K := ancestors_inclusive g (a :: b :: C).
  Let ag := subgraph g K.
  Notation R := (mreach g C a).
  Notation conn := (m_connected g C a b).

  Lemma in_C_dec x : {In x C} + {~ In x C}.
  Proof. destruct (mem x C) eqn:E; [left; apply mem_In; exact E|right; apply mem_false; exact E]. Qed.

  (* ---- K is the ancestral set ---- *)
  Lemma K_spec x : In x K <-> exists s, In s (a :: b :: C) /\ dpath g x s.
  Proof. apply ancestors_inclusive_spec. Qed.

  Lemma K_parent x y : In (x, y) (dir g) -> In y K -> In x K.
  Proof.
    intros Hxy Hy. apply K_spec in Hy. destruct Hy as [s [Hs Hp]]. apply K_spec. exists s. split; [exact Hs|].
    eapply rt_trans; [apply rt_step; exact Hxy|exact Hp].
  Qed.

  Lemma K_self s : In s (a :: b :: C) -> In s K.
  Proof. intros Hs. apply K_spec. exists s. split; [exact Hs|apply rt_refl]. Qed.

  (* ---- directed paths on which only the last node may lie in C ---- *)
  Inductive dpathC : A -> A -> Prop :=
  | dpc_refl x : dpathC x x
  | dpc_step x y z : ~ In x C -> In (x, y) (dir g) -> dpathC y z -> dpathC x z.

  Lemma dpath_split x s : dpath g x s -> exists y, dpathC x y /\ (y = s \/ In y C).
  Proof.
    intros Hp. apply clos_rt_rt1n in Hp. induction Hp as [x|x x' s Hxx' _ IH].
    - exists x. split; [constructor|left; reflexivity].
    - destruct (in_C_dec x) as [Hx|Hx].
      + exists x. split; [constructor|right; exact Hx].
      + destruct IH as [y [Hy Hs]]. exists y. split; [econstructor; eauto|exact Hs].
  Qed.

  (* down the path, up again: a node whose descent meets C can be re-entered with a tail *)
  Lemma bounce x y : dpathC x y -> In y C -> ~ In x C -> forall m, R x m -> R x Tail.
  Proof.
    intros Hp. induction Hp as [x|x x' y Hx Hxx' Hp IH]; intros Hy Hnx m Hr; [contradiction|].
    assert (Hdown : R x' Head).
    { eapply mr_step; [exact Hr|apply st_fwd; exact Hxx'|]. destruct m; exact Hx. }
    destruct (in_C_dec x') as [Hc|Hc].
    - eapply mr_step; [exact Hdown|apply st_bwd; exact Hxx'|exact Hc].
    - eapply mr_step; [eapply IH; eauto|apply st_bwd; exact Hxx'|exact Hc].
  Qed.

  Lemma descend x y : dpathC x y -> forall m, R x m -> exists m', R y m'.
  Proof.
    intros Hp. induction Hp as [x|x x' y Hx Hxx' Hp IH]; intros m Hr; [exists m; exact Hr|].
    apply (IH Head). eapply mr_step; [exact Hr|apply st_fwd; exact Hxx'|]. destruct m; exact Hx.
  Qed.

  Lemma ascend_gen x t : dpathC x t -> t = a -> ~ In x C /\ R x Tail.
  Proof.
    intros Hp. induction Hp as [x|x x' y Hx Hxx' Hp IH]; intros Et.
    - subst. split; [exact a_notin|constructor].
    - destruct (IH Et) as [Hc Hr]. split; [exact Hx|].
      eapply mr_step; [exact Hr|apply st_bwd; exact Hxx'|exact Hc].
  Qed.

  Lemma ascend_from_start x : dpathC x a -> ~ In x C /\ R x Tail.
  Proof. intros Hp. eapply ascend_gen; eauto. Qed.

  (* the invariant carried along a path of the moral graph *)
  Definition Inv (w : A) : Prop := conn \/ R w Tail.

  (* L1: reaching any node of the ancestral set outside C, with whatever mark, is enough *)
  Lemma arrive x m : R x m -> In x K -> ~ In x C -> Inv x.
  Proof.
    intros Hr Hk Hc. apply K_spec in Hk. destruct Hk as [s [Hs Hp]].
    apply dpath_split in Hp. destruct Hp as [y [Hp Hy]].
    assert (Hcase : In y C \/ (y = a) \/ (y = b)).
    { destruct Hy as [->|Hy]; [|left; exact Hy]. destruct Hs as [<-|[<-|Hs]]; auto. }
    destruct Hcase as [Hy'|[->| ->]].
    - right. eapply bounce; eauto.
    - right. apply ascend_from_start. exact Hp.
    - left. eapply descend; eauto.
  Qed.

  (* ---- the edges of the evidence graph before the conditioning set is removed ---- *)
  Definition E : list (A * A) := dir ag ++ bid ag ++ iter_moral_links ag ++ collider_links ag.

  Lemma ag_dir u v : In (u, v) (dir ag) <-> In (u, v) (dir g) /\ In u K /\ In v K.
  Proof. apply subgraph_dir. Qed.
  Lemma ag_bid u v : In (u, v) (bid ag) <-> In (u, v) (bid g) /\ In u K /\ In v K.
  Proof. apply subgraph_bid. Qed.
  Lemma ag_nodes v : In v (nodes ag) <-> In v K.
  Proof. apply subgraph_nodes. Qed.

  (* ready to leave x through an edge with an arrowhead at x *)
  Definition Rdy (x : A) : Prop := conn \/ (In x C /\ R x Head) \/ (~ In x C /\ R x Tail).

  Lemma rdy_arrive x : R x Head -> In x K -> Rdy x.
  Proof.
    intros Hr Hk. destruct (in_C_dec x) as [Hc|Hc]; [right; left; auto|].
    destruct (arrive x Head Hr Hk Hc) as [Hc'|Ht]; [left; exact Hc'|right; right; auto].
  Qed.

  Lemma rdy_leave x y my : Rdy x -> mstep g x Head my y -> conn \/ R y my.
  Proof.
    intros [Hc|[[Hc Hr]|[Hc Hr]]] Hs; [left; exact Hc| |]; right; eapply mr_step; eauto.
  Qed.

  Lemma rdy_bid x y : Rdy x -> In (x, y) (bid g) \/ In (y, x) (bid g) -> In y K -> Rdy y.
  Proof.
    intros Hx Hb Hk.
    assert (Hs : mstep g x Head Head y) by (destruct Hb; [apply st_bi1|apply st_bi2]; assumption).
    destruct (rdy_leave x y Head Hx Hs) as [Hc|Hr]; [left; exact Hc|apply rdy_arrive; assumption].
  Qed.

  Lemma rdy_bconn x y : bconn ag x y -> Rdy x -> Rdy y.
  Proof.
    intros Hb. apply bconn_iff in Hb. apply clos_rt_rt1n in Hb.
    induction Hb as [x|x x' y Hxx' _ IH]; intros Hx; [exact Hx|]. apply IH.
    apply (rdy_bid x x' Hx).
    - destruct Hxx' as [Hb|Hb]; apply ag_bid in Hb; tauto.
    - destruct Hxx' as [Hb|Hb]; apply ag_bid in Hb; tauto.
  Qed.

  (* u lies in the district D or among its parents: u can start a collider chain inside D *)
  Lemma enter_district D u : In D (districts ag) -> In u (union D (get_markov_pillow ag D)) -> ~ In u C -> Inv u ->
    exists d, In d D /\ Rdy d.
  Proof.
    intros HD Hu Hc Hi. unfold union in Hu. apply In_dedup_acc in Hu. destruct Hu as [Hu|Hu].
    - exists u. split; [exact Hu|]. destruct Hi as [Hi|Hi]; [left; exact Hi|right; right; auto].
    - apply get_markov_pillow_spec in Hu. destruct Hu as [[d [Hd Hud]] _]. exists d. split; [exact Hd|].
      apply ag_dir in Hud. destruct Hud as [Hud [_ Hdk]].
      destruct Hi as [Hi|Hi]; [left; exact Hi|]. apply rdy_arrive; [|exact Hdk].
      eapply mr_step; [exact Hi|apply st_fwd; exact Hud|exact Hc].
  Qed.

  Lemma leave_district D d v : In D (districts ag) -> In d D -> Rdy d ->
    In v (union D (get_markov_pillow ag D)) -> ~ In v C -> Inv v.
  Proof.
    intros HD Hd Hr Hv Hc. unfold union in Hv. apply In_dedup_acc in Hv. destruct Hv as [Hv|Hv].
    - assert (Hb : bconn ag d v) by (apply (districts_spec ag D d v HD Hd); exact Hv).
      destruct (rdy_bconn d v Hb Hr) as [Hc'|[[Hc' _]|[_ Ht]]]; [left; exact Hc'|contradiction|right; exact Ht].
    - apply get_markov_pillow_spec in Hv. destruct Hv as [[d' [Hd' Hvd]] _].
      assert (Hb : bconn ag d d') by (apply (districts_spec ag D d d' HD Hd); exact Hd').
      apply ag_dir in Hvd. destruct Hvd as [Hvd _].
      destruct (rdy_leave d' v Tail (rdy_bconn d d' Hb Hr) (st_bwd g d' v Hvd)) as [Hc'|Ht]; [left|right]; assumption.
  Qed.

  (* one edge of E, in either direction, preserves the invariant between nodes outside C *)
  Lemma inv_edge u v : In (u, v) E -> ~ In u C -> ~ In v C -> (Inv u -> Inv v) /\ (Inv v -> Inv u).
  Proof.
    unfold E. rewrite !in_app_iff. intros [Hd|[Hb|[Hm|Hl]]] Hu Hv.
    - apply ag_dir in Hd. destruct Hd as [Hd [Hku Hkv]]. split; intros [Hc|Hr]; try (left; exact Hc).
      + eapply arrive; [eapply mr_step; [exact Hr|apply st_fwd; exact Hd|exact Hu]|exact Hkv|exact Hv].
      + right. eapply mr_step; [exact Hr|apply st_bwd; exact Hd|exact Hv].
    - apply ag_bid in Hb. destruct Hb as [Hb [Hku Hkv]]. split; intros [Hc|Hr]; try (left; exact Hc).
      + eapply arrive; [eapply mr_step; [exact Hr|apply st_bi1; exact Hb|exact Hu]|exact Hkv|exact Hv].
      + eapply arrive; [eapply mr_step; [exact Hr|apply st_bi2; exact Hb|exact Hv]|exact Hku|exact Hu].
    - unfold iter_moral_links in Hm. apply in_flat_map in Hm. destruct Hm as [c [Hc Hp]].
      apply In_pairs in Hp. rewrite !In_parents in Hp. destruct Hp as [Huc Hvc].
      apply ag_dir in Huc. apply ag_dir in Hvc. destruct Huc as [Huc [_ Hkc]]. destruct Hvc as [Hvc _].
      assert (Hgen : forall p q, In (p, c) (dir g) -> In (q, c) (dir g) -> ~ In p C -> Inv p -> Inv q).
      { intros p q Hpc Hqc Hp [Hc'|Hr]; [left; exact Hc'|].
        assert (Hrc : R c Head) by (eapply mr_step; [exact Hr|apply st_fwd; exact Hpc|exact Hp]).
        destruct (rdy_leave c q Tail (rdy_arrive c Hrc Hkc) (st_bwd g c q Hqc)) as [Hc'|Ht]; [left|right]; assumption. }
      split; [apply (Hgen u v)|apply (Hgen v u)]; assumption.
    - unfold collider_links in Hl. apply in_flat_map in Hl. destruct Hl as [D [HD Hp]].
      apply In_pairs in Hp. destruct Hp as [HuD HvD]. split; intros Hi.
      + destruct (enter_district D u HD HuD Hu Hi) as [d [Hd Hr]]. eapply leave_district; eauto.
      + destruct (enter_district D v HD HvD Hv Hi) as [d [Hd Hr]]. eapply leave_district; eauto.
  Qed.

  (* ===== the converse: an active walk yields a path in the evidence graph ===== *)
  Inductive mcoreach : A -> mark -> Prop :=
  | mc_end m : mcoreach b m
  | mc_step x m mx my y : mstep g x mx my y -> pass C x m mx -> mcoreach y my -> mcoreach x m.

  (* a node entered against an arrow is an ancestor of the start node or of C *)
  Lemma tail_anc x m : R x m -> m = Tail -> exists s, In s (a :: C) /\ dpath g x s.
  Proof.
    intros Hr. induction Hr as [|x m mx my y Hr IH Hs Hp]; intros Em.
    - exists a. split; [left; reflexivity|apply rt_refl].
    - subst my. inversion Hs as [| x0 y0 Hyx | |]; subst.
      destruct m.
      + exists x. split; [right; exact Hp|apply rt_step; exact Hyx].
      + destruct (IH eq_refl) as [s [Hs' Hd]]. exists s. split; [exact Hs'|].
        eapply rt_trans; [apply rt_step; exact Hyx|exact Hd].
  Qed.

  Lemma on_walk_in_K x m : mcoreach x m -> R x m -> In x K.
  Proof.
    intros Hc. induction Hc as [m|x m mx my y Hs Hp Hc IH]; intros Hr.
    - apply K_self. right; left; reflexivity.
    - assert (Hy : In y K) by (apply IH; eapply mr_step; eauto).
      assert (Hhead : mx = Head -> In x K).
      { intros ->. destruct m.
        - apply K_self. right; right. exact Hp.
        - destruct (tail_anc x Tail Hr eq_refl) as [s [Hs' Hd]]. apply K_spec. exists s. split; [|exact Hd].
          destruct Hs' as [<-|Hs']; [left; reflexivity|right; right; exact Hs']. }
      inversion Hs; subst; [eapply K_parent; eauto| | |]; apply Hhead; reflexivity.
  Qed.

  Definition madj (u v : A) : Prop :=
    (In (u, v) E \/ In (v, u) E) /\ In u K /\ In v K /\ ~ In u C /\ ~ In v C.
  Definition mconn : A -> Prop := clos_refl_trans A madj a.

  Lemma mconn_step u v : mconn u -> madj u v -> mconn v.
  Proof. intros Hu Huv. eapply rt_trans; [exact Hu|apply rt_step; exact Huv]. Qed.

  (* w lies in the district of x or is a parent of it (all inside the ancestral graph) *)
  Definition cl (w x : A) : Prop := exists d, bconn ag x d /\ (w = d \/ In (w, d) (dir ag)).

  Lemma cl_in D x w : In D (districts ag) -> In x D -> cl w x -> In w (union D (get_markov_pillow ag D)).
  Proof.
    intros HD Hx [d [Hb Hw]]. assert (Hd : In d D) by (apply (districts_spec ag D x d HD Hx); exact Hb).
    unfold union. apply In_dedup_acc. destruct Hw as [->|Hw]; [left; exact Hd|].
    destruct (mem w D) eqn:Ew; [left; apply mem_In; exact Ew|right].
    apply get_markov_pillow_spec. split; [exists d; auto|apply mem_false; exact Ew].
  Qed.

  Lemma cl_adj x w y : In x K -> cl w x -> cl y x -> w = y \/ In (w, y) E \/ In (y, w) E.
  Proof.
    intros Hx Hw Hy. destruct (districts_cover ag x (proj2 (ag_nodes x) Hx)) as [D [HD HxD]].
    pose proof (cl_in D x w HD HxD Hw) as Hw'. pose proof (cl_in D x y HD HxD Hy) as Hy'.
    destruct (eq_dec_of w y) as [->|Hne]; [left; reflexivity|right].
    destruct (pairs_complete _ w y Hw' Hy' Hne) as [Hp|Hp]; [left|right]; unfold E; rewrite !in_app_iff;
      right; right; right; unfold collider_links; apply in_flat_map; exists D; auto.
  Qed.

  Definition M (x : A) (m : mark) : Prop :=
    (~ In x C -> mconn x) /\
    (In x C -> m = Head -> exists w, ~ In w C /\ In w K /\ mconn w /\ cl w x).

  Lemma E_dir u v : In (u, v) (dir g) -> In u K -> In v K -> In (u, v) E.
  Proof. intros. unfold E. apply in_app_iff. left. apply ag_dir. auto. Qed.
  Lemma E_bid u v : In (u, v) (bid g) -> In u K -> In v K -> In (u, v) E.
  Proof. intros. unfold E. rewrite !in_app_iff. right; left. apply ag_bid. auto. Qed.

  Lemma bconn_edge u v : In (u, v) (bid g) \/ In (v, u) (bid g) -> In u K -> In v K -> bconn ag u v.
  Proof.
    intros Hb Hu Hv. apply rt_step. apply In_sym. destruct Hb as [Hb|Hb]; [left|right]; apply ag_bid; auto.
  Qed.

  Lemma walk_M x m : R x m -> mcoreach x m -> In x K /\ M x m.
  Proof.
    intros Hr. induction Hr as [|x m mx my y Hr IH Hs Hp]; intros Hco.
    - split; [apply K_self; left; reflexivity|]. split; [intros _; apply rt_refl|intros Hc; contradiction].
    - assert (Hcox : mcoreach x m) by (eapply mc_step; eauto).
      destruct (IH Hcox) as [Hkx [Mx1 Mx2]].
      assert (Hky : In y K) by (apply (on_walk_in_K y my Hco); eapply mr_step; eauto).
      split; [exact Hky|].
      (* the edge between x and y, as an unordered pair of E, and the relation of x to the district of y *)
      assert (Hedge : In (x, y) E \/ In (y, x) E).
      { inversion Hs; subst; [left; apply E_dir|right; apply E_dir|left; apply E_bid|right; apply E_bid]; assumption. }
      destruct (in_C_dec x) as [Hcx|Hcx].
      + (* x is a collider in C: entered and left through arrowheads *)
        assert (Hm : m = Head /\ mx = Head).
        { destruct m, mx; simpl in Hp; try contradiction; auto. }
        destruct Hm as [-> ->]. destruct (Mx2 Hcx eq_refl) as [w [Hcw [Hkw [Hmw Hclw]]]].
        split.
        * intros Hcy.
          assert (Hcly : cl y x).
          { inversion Hs; subst.
            - exists x. split; [apply bconn_refl|right; apply ag_dir; auto].
            - exists y. split; [apply bconn_edge; auto|left; reflexivity].
            - exists y. split; [apply bconn_edge; auto|left; reflexivity]. }
          destruct (cl_adj x w y Hkx Hclw Hcly) as [<-|Hadj]; [exact Hmw|].
          eapply mconn_step; [exact Hmw|]. repeat split; auto.
        * intros Hcy ->. exists w. repeat split; auto.
          destruct Hclw as [d [Hb Hw]]. exists d. split; [|exact Hw].
          eapply bconn_trans; [|exact Hb]. inversion Hs; subst; apply bconn_edge; auto.
      + (* x is outside C *)
        specialize (Mx1 Hcx). split.
        * intros Hcy. eapply mconn_step; [exact Mx1|]. repeat split; auto.
        * intros Hcy ->. exists x. repeat split; auto.
          inversion Hs; subst.
          -- exists y. split; [apply bconn_refl|right; apply ag_dir; auto].
          -- exists x. split; [apply bconn_edge; auto|left; reflexivity].
          -- exists x. split; [apply bconn_edge; auto|left; reflexivity].
  Qed.

  Theorem connected_mconn : conn -> mconn b.
  Proof.
    intros [m Hr]. destruct (walk_M b m Hr (mc_end m)) as [_ [Hm _]]. exact (Hm b_notin).
  Qed.

  Theorem mconn_connected w : mconn w -> Inv w.
  Proof.
    intros Hm. apply clos_rt_rtn1 in Hm. induction Hm as [|u v Huv _ IH]; [right; constructor|].
    destruct Huv as [[He|He] [_ [_ [Hu Hv]]]].
    - apply (proj1 (inv_edge u v He Hu Hv)). exact IH.
    - apply (proj2 (inv_edge v u He Hv Hu)). exact IH.
  Qed.

  (* the model's test, unfolded *)
  Lemma evidence_path :
    ug_has_path (evidence_graph g (a :: b :: C) C) a b = true <-> mconn b.
  Proof.
    unfold ug_has_path, evidence_graph. fold K. fold ag. cbn [fst snd ug_subgraph disorient moralize nodes dir bid].
    rewrite mem_In, reach_spec.
    set (S' := diff (nodes ag) C).
    assert (HE : forall u v, In (u, v) (include_adjacent ((dir ag ++ bid ag ++ iter_moral_links ag) ++ collider_links ag) S') <->
                             In (u, v) E /\ In u K /\ In v K /\ ~ In u C /\ ~ In v C).
    { intros u v. rewrite In_include_adjacent. unfold S'. rewrite !In_diff, !ag_nodes. unfold E.
      rewrite <- !app_assoc. tauto. }
    split.
    - intros [x [[<-|[]] Hp]]. unfold mconn. eapply clos_rt_mono; [|exact Hp].
      intros u v Huv. apply In_sym in Huv. unfold madj. destruct Huv as [Huv|Huv]; apply HE in Huv; tauto.
    - intros Hm. exists a. split; [left; reflexivity|]. unfold mconn in Hm. eapply clos_rt_mono; [|exact Hm].
      intros u v Huv. apply In_sym. destruct Huv as [[He|He] Hrest]; [left|right]; apply HE; tauto.
  Qed.

  Theorem evidence_path_iff_connected :
    ug_has_path (evidence_graph g (a :: b :: C) C) a b = true <-> conn.
  Proof.
    rewrite evidence_path. split.
    - intros Hm. destruct (mconn_connected b Hm) as [Hc|Hr]; [exact Hc|exists Tail; exact Hr].
    - apply connected_mconn.
  Qed.
End MSepP.

(* The verdict of are_d_separated: for nodes a, b of the graph outside the conditioning set C (a subset of the nodes)
   it answers, and it answers 'separated' exactly when no active walk joins a and b given C. *)
Theorem are_d_separated_correct {A} `{EqB A} (g : mg A) a b C :
  In a (nodes g) -> In b (nodes g) -> incl C (nodes g) -> ~ In a C -> ~ In b C ->
  exists s, are_d_separated g a b C = DOk s /\ (s = true <-> ~ m_connected g C a b).
Proof.
  intros Ha Hb HC Na Nb. unfold are_d_separated.
  rewrite (proj2 (mem_In a (nodes g)) Ha), (proj2 (mem_In b (nodes g)) Hb), (proj2 (subset_incl C (nodes g)) HC).
  rewrite (proj2 (mem_false a C) Na), (proj2 (mem_false b C) Nb). cbn [andb negb orb].
  eexists. split; [reflexivity|].
  pose proof (evidence_path_iff_connected g a b C Na Nb) as Hiff.
  destruct (ug_has_path (evidence_graph g (a :: b :: C) C) a b); cbn [negb]; split.
  - discriminate.
  - intros Hn. exfalso. apply Hn. apply Hiff. reflexivity.
  - intros _ Hc. apply Hiff in Hc. discriminate.
  - reflexivity.
Qed.
