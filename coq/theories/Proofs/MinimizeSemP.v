(* C19, first clause: minimising a counterfactual variable (dropping the subscripts that are not ancestors of the variable once the edges
   into the subscripts are cut) yields the same random variable in every functional SCM over the graph: at every exogenous state the
   solutions of the two submodels give the variable the same value. *)
From Coq Require Import List Bool Arith Lia Relations.
From Y0 Require Import Base.ListSet Graph.Closure Graph.MixedGraph Dsl.Syntax Dsl.Build Alg.Cg Alg.CtfAnc
  Proofs.ClosureP Proofs.SurgeryP Sem.Scm Sem.CfSem Proofs.ScmP.
Import ListNotations.

Lemma find_filter {T} (p q : T -> bool) l : (forall i, In i l -> p i = true -> q i = true) -> find p (filter q l) = find p l.
Proof.
  induction l as [|a t IH]; intros H; [reflexivity|]. cbn [filter find]. destruct (q a) eqn:Eq.
  - cbn [find]. destruct (p a); [reflexivity|]. apply IH. intros i Hi. apply H. right. exact Hi.
  - destruct (p a) eqn:Ep; [rewrite (H a (or_introl eq_refl) Ep) in Eq; discriminate|]. apply IH. intros i Hi. apply H. right. exact Hi.
Qed.

Lemma find_none_filter {T} (p q : T -> bool) l : find p l = None -> find p (filter q l) = None.
Proof.
  induction l as [|a t IH]; intros H; [reflexivity|]. cbn [find] in H. destruct (p a) eqn:Ep; [discriminate|]. cbn [filter].
  destruct (q a); [cbn [find]; rewrite Ep|]; apply IH; exact H.
Qed.

Section MinimizeSem.
  Variable g : mg nat.
  Context {D : Type} {eqD : EqB D}.
  Variable U : Type.
  Variable f : nat -> (nat -> D) -> U -> D.
  Variable rho : nat * bool -> D.
  Hypothesis f_local : local g U f.
  Variable order : list nat.
  Hypothesis order_ok : is_topo g order = true.

  Lemma minimize_ivs v v' : minimize_counterfactual v g = Some v' ->
    vn v' = vn v /\ vs v' = vs v /\
    var_ivs v' = filter (fun i => mem (fst i) (inter (ancestors_inclusive (remove_in_edges g (iv_names v)) [vn v]) (iv_names v))) (var_ivs v).
  Proof.
    unfold minimize_counterfactual, minimize_counterfactual_gen, var_ivs. destruct (is_cf v) eqn:Ec; cbn [negb].
    - destruct (filter _ (vi v)) as [|i l] eqn:Ef; intros E; inversion E; subst; cbn [vn vs]; repeat split; reflexivity.
    - intros E. inversion E; subst. rewrite Ec. repeat split; reflexivity.
  Qed.

  Theorem minimize_same_variable v v' :
    minimize_counterfactual v g = Some v' -> In (vn v) (nodes g) ->
    forall u x x', solution g U f rho (var_ivs v) u x -> solution g U f rho (var_ivs v') u x' -> x (vn v) = x' (vn v').
  Proof.
    intros Hm Hv u x x' Hs Hs'. destruct (is_cf v) eqn:Ec.
    2:{ unfold minimize_counterfactual, minimize_counterfactual_gen in Hm. rewrite Ec in Hm. cbn [negb] in Hm. inversion Hm; subst.
        apply (solution_unique g U f rho f_local order order_ok _ u x x' Hs Hs' _ Hv). }
    destruct (minimize_ivs v v' Hm) as [En [_ Ei]]. rewrite En. rewrite Ei in Hs'.
    assert (Hcf : var_ivs v = vi v) by (unfold var_ivs; rewrite Ec; reflexivity). rewrite Hcf in *.
    set (ivv := iv_names v) in *. set (g' := remove_in_edges g ivv) in *. set (A := ancestors_inclusive g' [vn v]) in *.
    assert (Hnames : forall i, In i (vi v) -> In (fst i) ivv).
    { intros i Hi. unfold ivv, iv_names. apply (proj2 (In_dedup _ _)). apply in_map. exact Hi. }
    apply (solutions_agree g U f rho f_local order order_ok (fun w => In w A) _ _ u x x' Hs Hs').
    - (* inside A the minimised variable carries the same subscripts *)
      intros w Hw Aw. unfold do_value. f_equal. symmetry. apply find_filter. intros i Hi Ew. apply Nat.eqb_eq in Ew. apply mem_In.
      apply In_inter. split; [rewrite Ew; exact Aw|apply Hnames; exact Hi].
    - (* a node of A that is not intervened on has all its parents in A *)
      intros w p Hw Aw Hnone Hp. unfold A in *. apply ancestors_inclusive_spec in Aw. destruct Aw as [s [Hs0 Hd]]. apply ancestors_inclusive_spec. exists s. split; [exact Hs0|].
      eapply rt_trans; [|exact Hd]. apply rt_step. apply remove_in_edges_dir. split; [apply In_parents; exact Hp|].
      intros Hin. unfold ivv, iv_names in Hin. apply (proj1 (In_dedup _ _)) in Hin. apply in_map_iff in Hin. destruct Hin as [i [Ei' Hi]].
      unfold do_value in Hnone. destruct (find (fun j => Nat.eqb (fst j) w) (vi v)) eqn:Ef; [discriminate|].
      pose proof (find_none _ _ Ef i Hi) as Hne. cbn in Hne. rewrite Ei', Nat.eqb_refl in Hne. discriminate.
    - exact Hv.
    - unfold A. apply ancestors_inclusive_spec. exists (vn v). split; [left; reflexivity|apply rt_refl].
  Qed.

  (* in terms of computed values: the minimised variable takes the same value at every exogenous state *)
  Corollary minimize_same_value v v' u :
    minimize_counterfactual v g = Some v' -> In (vn v) (nodes g) -> value U f rho order v u = value U f rho order v' u.
  Proof.
    intros Hm Hv. unfold value. apply (minimize_same_variable v v' Hm Hv u); apply (solution_exists g U f rho f_local order order_ok).
  Qed.

  (* hence minimising every variable of an event changes the truth of the event at no state *)
  Corollary minimize_event_same_truth (ev ev' : cevent) u :
    map_opt (fun p => option_map (fun v => (v, snd p)) (minimize_counterfactual (fst p) g)) ev = Some ev' ->
    (forall p, In p ev -> In (vn (fst p)) (nodes g)) ->
    cevent_true U f rho order ev u = cevent_true U f rho order ev' u.
  Proof.
    revert ev'. induction ev as [|p t IH]; intros ev' Hm Hn; cbn [map_opt] in Hm; [inversion Hm; reflexivity|].
    destruct (minimize_counterfactual (fst p) g) as [v'|] eqn:Ev; cbn [option_map] in Hm; [|discriminate].
    destruct (map_opt _ t) as [t'|] eqn:Et; [|discriminate]. inversion Hm; subst. cbn [cevent_true forallb].
    f_equal; [|apply IH; [reflexivity|intros q Hq; apply Hn; right; exact Hq]].
    unfold centry_true. cbn [fst snd]. destruct (snd p); [|reflexivity]. rewrite (minimize_same_value (fst p) v' u Ev (Hn p (or_introl eq_refl))). reflexivity.
  Qed.
End MinimizeSem.
