(* Model of algorithm/transport.py: selection (transport) diagrams and the TRSO recursion (Tikka & Karvanen).
   Names: regular nodes V<k> = 100+k; the transport node of V<k> is T_V<k> = 50+k (so that name order is number order); populations are
   variable names (pi<k> = 200+k, the target pi* = 210). Topological orders are an oracle. *)
From Coq Require Import List Bool Arith.
From Y0 Require Import Base.ListSet Graph.Closure Graph.MixedGraph Graph.DSep Graph.CondInd
  Dsl.Syntax Dsl.Text Dsl.Build Dsl.Canon Alg.Id.
Import ListNotations.

Definition TARGET := 200.
Definition is_transport_node (n : nat) : bool := Nat.leb 50 n && Nat.ltb n 60.
Definition transport_variable (n : nat) : nat := 50 + (n - 100).
Definition get_regular_nodes (g : mg nat) : list nat := filter (fun n => negb (is_transport_node n)) (nodes g).
Definition get_transport_nodes (g : mg nat) : list nat := filter is_transport_node (nodes g).

Definition get_nodes_to_transport (sint sout : list nat) (g : mg nat) : list nat :=
  let ccomp := dedup (flat_map (fun D => if is_nil (inter sout D) then [] else D) (districts g)) in
  let anc := ancestors_inclusive (remove_in_edges g sint) sout in
  let desc := descendants_inclusive g sint in
  union (diff desc sout) (diff ccomp anc).

Definition create_transport_diagram (to_transport : list nat) (g : mg nat) : mg nat :=
  from_edges (nodes g) (dir g ++ map (fun v => (transport_variable v, v)) to_transport) (bid g).

Inductive trso_result := ROk (e : option expr) | RCrash (code : nat) | RAmbiguous.
Definition AttributeError := 11.
Definition NetworkXError := 12.

Record tq := mkTq { tX : list nat; tY : list nat; texpr : expr; tact : list nat; tdom : nat;
                    tgraphs : list (nat * mg nat); tsurr : list (nat * list nat) }.

Definition lookup {T} (k : nat) (l : list (nat * T)) : option T :=
  option_map snd (find (fun p => Nat.eqb (fst p) k) l).
Definition update {T} (k : nat) (v : T) (l : list (nat * T)) : list (nat * T) :=
  if existsb (fun p => Nat.eqb (fst p) k) l then map (fun p => if Nat.eqb (fst p) k then (k, v) else p) l
  else l ++ [(k, v)].

Definition canon (e : expr) : expr := canonicalize_top false e None.

(* all_transports_d_separated; None = an exception inside are_d_separated *)
Definition all_transports_d_separated (g : mg nat) (X Y : list nat) : option bool :=
  let gwi := remove_in_edges g X in
  let rs := flat_map (fun t => map (fun y => are_d_separated gwi t y X) Y) (get_transport_nodes g) in
  if existsb (fun r => match r with DOk _ => false | _ => true end) rs then None
  else Some (forallb is_sep rs).

(* activate_domain_and_interventions *)
Fixpoint activate (interventions : list nat) (domain : nat) (e : expr) : expr :=
  match e with
  | EProb (Some _) ch pa =>
      match diff (dedup ch) (Vs interventions) with
      | [] => EOne       (* repaired: a term about nothing but intervened variables is one *)
      | keep => match dist_intervene (upgrade_ordering keep, upgrade_ordering (diff pa (Vs interventions))) (Vs interventions) with
                | Some cp => prob_raw (Some (V domain)) (fst cp) (snd cp)
                | None => EErr ValueError
                end
      end
  | EProb None _ _ => EErr TypeError
  | ESum e' rs => sum_safe (activate interventions domain e') rs false
  | EFrac n d =>
      match truediv (activate interventions domain n) (activate interventions domain d) with
      | EFrac n' d' => frac_simplify (EFrac n' d')
      | ESum e' rs => sum_simplify e' rs
      | EErr k => EErr k
      | _ => EErr AttributeError
      end
  | EProd es => prod_safe (map (activate interventions domain) es)
  | EErr k => e
  | _ => EErr 10   (* NotImplementedError *)
  end.

(* ---------------------------------------------------------------- the recursion *)

Section TRSO.
  Variable topo : mg nat -> option (list nat).

  Definition with_topo (g : mg nat) (k : list nat -> trso_result) : trso_result :=
    match topo g with
    | None => RCrash BadOracle
    | Some o => if is_topo g o then k o else RCrash BadOracle
    end.

  Definition c14n (r : trso_result) : trso_result :=
    match r with
    | ROk (Some e) => match canon e with EErr k => RCrash k | e' => ROk (Some e') end
    | _ => r
    end.
  Definition ok_expr (e : expr) : trso_result := match e with EErr k => RCrash k | _ => ROk (Some e) end.

  Definition trso_line2 (q : tq) (g : mg nat) (anc : list nat) : option tq :=
    (* every domain graph is cut to the ancestors of the outcomes in that graph (NetworkXError if an outcome is missing) *)
    if forallb (fun dg => ancestors_ok (snd dg) (tY q)) (tgraphs q) then
      let graphs' := map (fun dg => (fst dg, subgraph (snd dg) (ancestors_inclusive (snd dg) (tY q)))) (tgraphs q) in
      let e := sum_safe (texpr q) (Vs (diff (get_regular_nodes g) anc)) true in
      let e' := match e with
                | EProb (Some _) ch _ => prob_raw (Some (V (tdom q))) ch []
                | EProb None _ _ => EErr TypeError
                | _ => e
                end in
      Some (mkTq (inter (tX q) anc) (tY q) e' (tact q) (tdom q) graphs' (tsurr q))
    else None.

  Definition line_6_helper (q : tq) (domain : nat) (g : mg nat) : option (option tq) :=
    (* outer None = exception; inner None = "this domain is not usable" *)
    match lookup domain (tsurr q) with
    | None => None
    | Some Sd =>
        let sit := inter Sd (tX q) in
        if is_nil sit then Some None
        else match all_transports_d_separated g (tX q) (tY q) with
             | None => None
             | Some false => Some None
             | Some true =>
                 Some (Some (mkTq (diff (tX q) Sd) (tY q) (texpr q) sit domain
                                  (update domain (remove_nodes_from g sit) (tgraphs q)) (tsurr q)))
             end
    end.

  Definition trso_line9 (q : tq) (g : mg nat) (district : list nat) : trso_result :=
    if is_zero (texpr q) then RCrash RuntimeError else
    with_topo g (fun ordering0 =>
      let ordering := filter (fun n => negb (is_transport_node n)) ordering0 in   (* repaired: selection nodes are not summed *)
      let factor (node : nat) : expr :=
          match index_nat node ordering with
          | None => EErr ValueError
          | Some i => truediv (sum_safe (texpr q) (Vs (skipn (S i) ordering)) false)
                              (sum_safe (texpr q) (Vs (skipn i ordering)) false)
          end in
      let product := fold_left (fun acc node => mul acc (factor node)) district EOne in
      let simplified := match product with
                        | EFrac _ _ => frac_simplify product
                        | ESum e rs => sum_simplify e rs
                        | EErr k => EErr k
                        | _ => EErr AttributeError
                        end in
      ok_expr (sum_safe simplified (Vs (diff district (tY q))) false)).

  Definition trso_line10 (q : tq) (g : mg nat) (district : list nat) (new_surr : list (nat * list nat)) (ordering0 : list nat) : tq :=
    let ordering := filter (fun n => negb (is_transport_node n)) ordering0 in
    let exprs := map (fun node => match index_nat node ordering with
                                  | None => EErr ValueError
                                  | Some i =>
                                      (* repaired: the conditionals of the distribution the recursion carries - written down directly while that is
                                         (a marginal of) the joint, derived from it once an earlier line 10 has replaced it by a c-factor *)
                                      if is_marginal_of_joint (texpr q)
                                      then prob_safe (Some (V (tdom q))) [] (Some ([V node], upgrade_ordering (Vs (firstn i ordering)))) [] None
                                      else truediv (sum_safe (texpr q) (Vs (skipn (S i) ordering)) false)
                                                   (sum_safe (texpr q) (Vs (node :: skipn (S i) ordering)) false)
                                  end) district in
    mkTq (inter (tX q) district) (tY q) (canon (prod_safe exprs)) (tact q) (tdom q)
         (update (tdom q) (subgraph g district) (tgraphs q)) new_surr.

  Fixpoint trso (fuel : nat) (q : tq) : trso_result :=
    match fuel with
    | 0 => RCrash OutOfFuel
    | S f =>
      match lookup (tdom q) (tgraphs q) with
      | None => RCrash KeyError
      | Some g =>
        match tX q with
        | [] => ok_expr (canon (sum_safe (texpr q) (Vs (diff (get_regular_nodes g) (tY q))) false))
        | _ =>
          if negb (ancestors_ok g (tY q)) then RCrash NetworkXError else
          let anc := ancestors_inclusive g (tY q) in
          if negb (is_nil (diff (get_regular_nodes g) anc)) then
            match trso_line2 q g anc with
            | None => RCrash NetworkXError
            | Some q' => if is_err (texpr q') then ok_expr (texpr q') else c14n (trso f q')
            end
          else
          let add := get_no_effect_on_outcomes g (tX q) (tY q) in
          if negb (is_nil add) then
            c14n (trso f (mkTq (union (tX q) add) (tY q) (texpr q) (tact q) (tdom q) (tgraphs q) (tsurr q)))
          else
          let dwi := districts (remove_nodes_from g (tX q)) in
          if Nat.ltb 1 (List.length dwi) then
            (* line 4 *)
            let rs := map (fun comp => trso f (mkTq (diff (get_regular_nodes g) comp) comp (texpr q) (tact q) (tdom q)
                                                    (tgraphs q) (tsurr q))) dwi in
            let crashed := existsb (fun r => match r with RCrash _ | RAmbiguous => true | _ => false end) rs in
            let none := existsb (fun r => match r with ROk None => true | _ => false end) rs in
            if crashed && none then RAmbiguous
            else if crashed then match find (fun r => match r with RCrash _ | RAmbiguous => true | _ => false end) rs with
                                 | Some c => c | None => RAmbiguous end
            else if none then ROk None
            else
              let terms := flat_map (fun r => match r with ROk (Some e) => [e] | _ => [] end) rs in
              ok_expr (canon (sum_safe (canon (prod_safe terms))
                                       (Vs (diff (get_regular_nodes g) (union (tX q) (tY q)))) false))
          else
          (* lines 6 and 7 *)
          let line6 : option trso_result :=
            if is_nil (tact q) && negb (is_nil (tsurr q)) then
              let step (acc : option trso_result) (dg : nat * mg nat) : option trso_result :=
                  match acc with
                  | Some r => Some r          (* first usable domain wins (dict order) *)
                  | None =>
                      if Nat.eqb (fst dg) TARGET then None else
                      match line_6_helper q (fst dg) (snd dg) with
                      | None => Some (RCrash KeyError)
                      | Some None => None
                      | Some (Some sub) =>
                          match trso f sub with
                          | ROk None => None
                          | ROk (Some e) =>
                              match activate (tact sub) (fst dg) e with
                              | EErr k => Some (RCrash k)
                              | e' => Some (ok_expr (canon e'))
                              end
                          | r => Some r
                          end
                      end
                  end in
              fold_left step (tgraphs q) None
            else None in
          match line6 with
          | Some r => r
          | None =>
            let ds := districts g in
            if Nat.leb (List.length ds) 1 then ROk None else
            match dwi with
            | [dw] =>
                if existsb (set_eqb dw) ds then c14n (trso_line9 q g dw)
                else
                  match filter (fun d => subset dw d) ds with
                  | [td] =>
                      let go (new_surr : list (nat * list nat)) :=
                          with_topo g (fun o => c14n (trso f (trso_line10 q g td new_surr o))) in
                      if is_nil (tact q) then go []
                      else if existsb is_transport_node (get_markov_pillow g td) then ROk None
                      else go (tsurr q)
                  | _ => RCrash RuntimeError
                  end
            | _ => RCrash RuntimeError
            end
          end
        end
      end
    end.

  (* identify_target_outcomes; domains: list of (population, surrogate_outcomes, surrogate_interventions) in dict order *)
  Definition identify_target_outcomes (g : mg nat) (Y X : list nat) (domains : list (nat * list nat * list nat)) : trso_result :=
    let all := flat_map (fun d => snd (fst d) ++ snd d) domains in
    if negb (subset Y (nodes g) && subset X (nodes g) && subset all (nodes g)) then RCrash ValueError
    else if negb (is_nil (inter Y X)) then RCrash ValueError
    else
      let graphs := fold_left (fun acc d => update (fst (fst d))
                                 (create_transport_diagram (get_nodes_to_transport (snd d) (snd (fst d)) g) g) acc) domains [] in
      let graphs := update TARGET g graphs in
      let surr := fold_left (fun acc d => update (fst (fst d)) (snd d) acc) domains [] in
      trso (fuel_for g)
           (mkTq X Y (prob_safe (Some (V TARGET)) (Vs (nodes g)) None [] None) [] TARGET graphs surr).
End TRSO.
