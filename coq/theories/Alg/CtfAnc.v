(* Model of counterfactual_transport/ancestor_utils.py and of the event helpers of counterfactual_transport/api.py:
   counterfactual ancestors (Def. 2.1), minimisation ||Y_x||, ancestral components (Def. 4.2), SIMPLIFY
   (Algorithm 1), counterfactual-factor form and the factorisation (Eq. 11-15).  Graph nodes are plain variable
   names (nat); counterfactual variables are [var]s. *)
From Coq Require Import List Bool Arith.
From Y0 Require Import Base.ListSet Graph.Closure Graph.MixedGraph Dsl.Syntax Dsl.Text Dsl.Build Alg.Id Alg.Cg.
Import ListNotations.

Definition iv_names (v : var) : list nat := dedup (map fst (vi v)).

(* Variable.intervene with a set of Interventions (stars kept) *)
Definition with_interventions (n : nat) (ivs : list (nat * bool)) : var :=
  match norm_ivs ivs with [] => V n | l => mkVar KCf n None l end.

(* get_ancestors_of_counterfactual; None = NetworkXError (variable not in the graph) *)
Definition get_ancestors_of_counterfactual (v : var) (g : mg nat) : option (list var) :=
  if negb (mem (vn v) (nodes g)) then None else
  if negb (is_cf v) then Some (map V (ancestors_inclusive g [vn v]))
  else
    let ivv := iv_names v in
    let gmi := remove_in_edges g ivv in
    let anc := ancestors_inclusive (remove_out_edges g ivv) [vn v] in
    Some (map (fun a => with_interventions a (filter (fun i => mem (fst i) (ancestors_inclusive gmi [a])) (vi v))) anc).

(* minimize_counterfactual (repaired: no relevant subscript left => the plain variable) *)
Definition minimize_counterfactual_gen (old : bool) (v : var) (g : mg nat) : option var :=
  if negb (is_cf v) then Some v
  else
    let ivv := iv_names v in
    let treat := inter (ancestors_inclusive (remove_in_edges g ivv) [vn v]) ivv in
    match filter (fun i => mem (fst i) treat) (vi v) with
    | [] => if old then None (* ValueError: empty intervention set *) else Some (mkVar KVar (vn v) (vs v) [])
    | l => Some (mkVar KCf (vn v) (vs v) l)
    end.
Definition minimize_counterfactual := minimize_counterfactual_gen false.

(* ---------------------------------------------------------------- ancestral components *)

Definition get_conditioned_variables_in_ancestral_set (conds : list var) (root : var) (g : mg nat) : option (list nat) :=
  match map_opt (fun c => minimize_counterfactual c g) conds, get_ancestors_of_counterfactual root g with
  | Some mins, Some anc => Some (dedup (map vn (inter (dedup mins) anc)))
  | _, _ => None
  end.

Definition get_ancestral_set_after_intervening (conds : list var) (root : var) (g : mg nat) : option (list var) :=
  match get_conditioned_variables_in_ancestral_set conds root g with
  | Some cs => get_ancestors_of_counterfactual root (remove_out_edges g cs)
  | None => None
  end.

Definition bases_of (s : list var) : list nat := dedup (map vn s).

(* connected components of a list of sets under a symmetric link predicate; each component is the union of its sets *)
Fixpoint grow {T} (link : T -> T -> bool) (fuel : nat) (comp rest : list T) : list T * list T :=
  match fuel with
  | 0 => (comp, rest)
  | S f =>
      let add := filter (fun r => existsb (fun c => link c r) comp) rest in
      match add with
      | [] => (comp, rest)
      | _ => grow link f (comp ++ add) (filter (fun r => negb (existsb (fun c => link c r) comp)) rest)
      end
  end.
Fixpoint components {T} (link : T -> T -> bool) (fuel : nat) (sets : list T) : list (list T) :=
  match fuel with
  | 0 => []
  | S f =>
      match sets with
      | [] => []
      | s :: rest => let '(comp, rest') := grow link (List.length sets) [s] rest in comp :: components link f rest'
      end
  end.

Definition merge_with_common_vertices (sets : list (list var)) : list (list var) :=
  map (fun comp => dedup (concat comp))
      (components (fun a b => negb (is_nil (inter (bases_of a) (bases_of b)))) (List.length sets) sets).

Definition linked_by_bidirected (old : bool) (g : mg nat) (all : list (list var)) (a b : list var) : bool :=
  let inside := dedup (flat_map bases_of all) in
  existsb (fun e => (mem (fst e) (bases_of a) && mem (snd e) (bases_of b)) || (mem (snd e) (bases_of a) && mem (fst e) (bases_of b))) (bid g)
  || (* pinned tree before the repair: two sets that each have an edge to a vertex outside all sets are linked *)
     (old && existsb (fun e => (mem (fst e) (bases_of a) && negb (mem (snd e) inside)) || (mem (snd e) (bases_of a) && negb (mem (fst e) inside))) (bid g)
          && existsb (fun e => (mem (fst e) (bases_of b) && negb (mem (snd e) inside)) || (mem (snd e) (bases_of b) && negb (mem (fst e) inside))) (bid g)).

Definition merge_linked_by_bidirectional_edges (old : bool) (sets : list (list var)) (g : mg nat) : list (list var) :=
  map (fun comp => dedup (concat comp)) (components (linked_by_bidirected old g sets) (List.length sets) sets).

Definition get_ancestral_components_gen (old : bool) (conds roots : list var) (g : mg nat) : option (list (list var)) :=
  match map_opt (fun r => get_ancestral_set_after_intervening conds r g) roots with
  | None => None
  | Some sets =>
      let distinct := fold_left (fun acc s => if existsb (set_eqb s) acc then acc else acc ++ [s]) sets [] in
      Some (merge_linked_by_bidirectional_edges old (merge_with_common_vertices distinct) g)
  end.
Definition get_ancestral_components := get_ancestral_components_gen false.

(* ---------------------------------------------------------------- SIMPLIFY (Algorithm 1) *)

Definition cevent := list (var * option (nat * bool)).     (* list of (variable, value or None) *)

Definition is_reflexive (v : var) : bool := is_cf v && existsb (fun i => Nat.eqb (fst i) (vn v)) (vi v).

(* _remove_repeated_variables_and_values: variable -> set of values, first-occurrence order; None dropped when other values exist *)
Definition value_sets (ev : cevent) : list (var * list (option (nat * bool))) :=
  let raw := fold_left (fun acc p =>
               if existsb (fun q => eqb (fst q) (fst p)) acc
               then map (fun q => if eqb (fst q) (fst p) then (fst q, if mem (snd p) (snd q) then snd q else snd q ++ [snd p]) else q) acc
               else acc ++ [(fst p, [snd p])]) ev [] in
  map (fun q => (fst q, if Nat.ltb 1 (List.length (snd q)) then filter (fun x => match x with None => false | _ => true end) (snd q) else snd q)) raw.

Inductive tri := TTrue | TFalse | TTypeError.

Definition any_variables_with_inconsistent_values (nonrefl refl : list (var * list (option (nat * bool)))) : tri :=
  if existsb (fun q => Nat.ltb 1 (List.length (snd q)) && mem None (snd q)) nonrefl
     || existsb (fun q => mem None (snd q) && negb (is_cf (fst q)) && Nat.ltb 1 (List.length (snd q))) refl then TTypeError
  else if existsb (fun q => Nat.ltb 1 (List.length (snd q))) nonrefl then TTrue
  else if existsb (fun q => mem None (snd q) && is_cf (fst q)) refl then TTypeError
  else if existsb (fun q => if is_cf (fst q)
                            then existsb (fun i => negb (set_eqb [Some i] (snd q))) (vi (fst q))
                            else Nat.ltb 1 (List.length (snd q))) refl then TTrue
  else TFalse.

(* _reduce_reflexive_counterfactual_variables_to_interventions; None = ValueError *)
Definition reduce_reflexive (refl : list (var * list (option (nat * bool)))) : option (list (var * list (option (nat * bool)))) :=
  fold_left (fun acc q =>
    match acc with
    | None => None
    | Some d =>
        let add (k : var) := if existsb (fun r => eqb (fst r) k) d
                             then map (fun r => if eqb (fst r) k then (k, union (snd r) (snd q)) else r) d
                             else d ++ [(k, dedup (snd q))] in
        if negb (is_cf (fst q)) then Some (add (fst q))
        else if negb (Nat.eqb (List.length (vi (fst q))) 1) then None
        else if existsb (fun i => negb (Nat.eqb (fst i) (vn (fst q)))) (vi (fst q)) then None
        else Some (add (base (fst q)))
    end) refl (Some []).

Inductive simp_result := SEvent (e : cevent) | SNone | SExc (code : nat).

Definition simplify_gen (old : bool) (ev : cevent) (g : mg nat) : simp_result :=
  if existsb (fun p => negb (is_cf (fst p)) && match vs (fst p) with Some _ => true | None => false end) ev then SExc TypeError else
  match map_opt (fun p => option_map (fun v => (v, snd p)) (minimize_counterfactual_gen old (fst p) g)) ev with
  | None => SExc ValueError
  | Some minimized =>
      let refl_ev := filter (fun p => is_reflexive (fst p) || negb (is_cf (fst p))) minimized in
      let nonrefl_ev := filter (fun p => is_cf (fst p) && negb (is_reflexive (fst p))) minimized in
      let nonrefl := value_sets nonrefl_ev in
      let refl := value_sets refl_ev in
      match any_variables_with_inconsistent_values nonrefl refl with
      | TTypeError => SExc TypeError
      | TTrue => SNone
      | TFalse =>
          match reduce_reflexive refl with
          | None => SExc ValueError
          | Some refl' =>
              match any_variables_with_inconsistent_values nonrefl refl' with
              | TTypeError => SExc TypeError
              | TTrue => SNone
              | TFalse => SEvent (map (fun q => (fst q, match snd q with x :: _ => x | [] => None end)) (nonrefl ++ refl'))
              end
          end
      end
  end.
Definition simplify := simplify_gen false.

(* ---------------------------------------------------------------- counterfactual factor form and factorisation *)

Definition convert_var_to_ctf_factor_form (v : var) (g : mg nat) : var :=
  let cand := dedup (parents g (vn v)) in
  let kept := if is_cf v then filter (fun i => mem (fst i) cand) (vi v) else [] in
  let extra := map (fun p => (p, false)) (filter (fun p => negb (mem p (map fst kept))) cand) in
  with_interventions (vn v) (kept ++ extra).

Definition is_counterfactual_factor_form (ev : list var) (g : mg nat) : bool :=
  forallb (fun v =>
    let ps := dedup (parents g (vn v)) in
    if is_cf v then negb (existsb (fun i => Nat.eqb (fst i) (vn v)) (vi v)) && forallb (fun p => mem p (map fst (vi v))) ps
    else is_nil ps) ev.

(* do_counterfactual_factor_factorization: (expression, event in counterfactual-factor form) *)
Definition do_counterfactual_factor_factorization (variables : cevent) (g : mg nat) : option (expr * cevent) :=
  match variables with
  | [] => None
  | _ =>
    let result_event := map (fun p => (convert_var_to_ctf_factor_form (fst p) g, snd p)) variables in
    match map_opt (fun p => get_ancestors_of_counterfactual (fst p) g) variables with
    | None => None
    | Some ancs =>
        let anc := dedup (concat ancs) in
        let anc_cf := dedup (map (fun v => convert_var_to_ctf_factor_form v g) anc) in
        let names := dedup (map vn anc_cf) in
        let outcome_bases := dedup (map (fun p => vn (fst p)) variables) in
        let sub := subgraph g names in
        if negb (is_counterfactual_factor_form anc_cf sub) then None
        else
          let factors := flat_map (fun D => match filter (fun v => mem (vn v) D) anc_cf with [] => [] | f => [f] end) (districts sub) in
          let e := prod_safe (map (fun f => prob_safe None f None [] None) factors) in
          Some (sum_safe e (Vs (diff names outcome_bases)) false, result_event)
    end
  end.
