(* Model of algorithm/identify/id_std.py (ID, Shpitser & Pearl 2006), utils.Identification and the
   public wrapper api.identify_outcomes. Topological orders are an oracle argument. *)
From Coq Require Import List Bool Arith.
From Y0 Require Import Base.ListSet Graph.Closure Graph.MixedGraph Dsl.Syntax Dsl.Text Dsl.Build.
Import ListNotations.

Inductive id_result := IdOk (e : expr) | IdUnident | IdCrash (code : nat).

Definition OutOfFuel := 90.
Definition BadOracle := 91.
Definition RuntimeError := 7.

Record ident := mkIdent { ig : mg nat; itr : list nat; iout : list nat; iest : expr }.

Definition Vs (l : list nat) : list var := map V l.

Definition is_connected (g : mg nat) : bool := Nat.eqb (List.length (districts g)) 1.

(* graph.get_no_effect_on_outcomes *)
Definition get_no_effect_on_outcomes (g : mg nat) (X Y : list nat) : list nat :=
  diff (diff (nodes g) X) (ancestors_inclusive (remove_in_edges g X) Y).

Fixpoint index_nat (v : nat) (l : list nat) : option nat :=
  match l with [] => None | x :: t => if Nat.eqb x v then Some 0 else option_map S (index_nat v t) end.

(* repaired _is_marginal_of_joint *)
Fixpoint is_marginal_of_joint (e : expr) : bool :=
  match e with
  | ESum e' _ => is_marginal_of_joint e'
  | EProb _ _ [] => true
  | _ => false
  end.

Section ID.
  Variable old : bool.                               (* true: pinned tree, p_parents ignores the carried estimand *)
  Variable topo : mg nat -> option (list nat).       (* oracle: the order returned by topological_sort *)

  Definition p_parents (child : nat) (ordering : list nat) (est : expr) : expr :=
    match index_nat child ordering with
    | None => EErr ValueError
    | Some i =>
        if old || is_marginal_of_joint est
        then prob_safe None [] (Some ([V child], upgrade_ordering (Vs (firstn i ordering)))) [] None
        else let succ := skipn (S i) ordering in
             truediv (sum_safe est (Vs succ) false) (sum_safe est (Vs (child :: succ)) false)
    end.

  Definition line_1 (I : ident) : expr := sum_safe (iest I) (Vs (diff (nodes (ig I)) (iout I))) false.

  Definition line_2 (I : ident) : ident :=
    let anc := ancestors_inclusive (ig I) (iout I) in
    mkIdent (subgraph (ig I) anc) (inter (itr I) anc) (iout I)
            (sum_safe (iest I) (Vs (diff (nodes (ig I)) anc)) false).

  Definition line_3 (I : ident) : ident :=
    mkIdent (ig I) (union (itr I) (get_no_effect_on_outcomes (ig I) (itr I) (iout I))) (iout I) (iest I).

  Definition line_4 (I : ident) : list ident :=
    map (fun D => mkIdent (ig I) (diff (nodes (ig I)) D) D (iest I))
        (districts (remove_nodes_from (ig I) (itr I))).

  Definition with_order (g : mg nat) (k : list nat -> id_result) : id_result :=
    match topo g with
    | None => IdCrash BadOracle
    | Some o => if is_topo g o then k o else IdCrash BadOracle
    end.

  Fixpoint identify (fuel : nat) (I : ident) : id_result :=
    match fuel with
    | 0 => IdCrash OutOfFuel
    | S f =>
      let g := ig I in
      let X := itr I in
      let Y := iout I in
      match X with
      | [] => IdOk (line_1 I)
      | _ =>
        if negb (is_nil (diff (nodes g) (ancestors_inclusive g Y))) then identify f (line_2 I)
        else if negb (is_nil (get_no_effect_on_outcomes g X Y)) then identify f (line_3 I)
        else
          let gwt := remove_nodes_from g X in
          if negb (is_connected gwt) then
            let rs := map (identify f) (line_4 I) in
            match find (fun r => match r with IdCrash _ => true | _ => false end) rs with
            | Some c => c
            | None =>
              if existsb (fun r => match r with IdUnident => true | _ => false end) rs then IdUnident
              else IdOk (sum_safe (prod_safe (flat_map (fun r => match r with IdOk e => [e] | _ => [] end) rs))
                                  (Vs (diff (nodes g) (union Y X))) false)
            end
          else if is_connected g then IdUnident
          else
            match districts gwt with
            | [S0] =>
                if existsb (set_eqb S0) (districts g) then
                  with_order g (fun o =>
                    IdOk (sum_safe (prod_safe (map (fun v => p_parents v o (iest I)) S0)) (Vs (diff S0 Y)) false))
                else
                  match find (fun D => subset S0 D && negb (subset D S0)) (districts g) with
                  | Some D =>
                      with_order g (fun o =>
                        identify f (mkIdent (subgraph g D) (inter X D) Y
                                            (prod_safe (map (fun v => p_parents v o (iest I)) D))))
                  | None => IdCrash ValueError
                  end
            | _ => IdCrash RuntimeError
            end
      end
    end.

  (* enough for every valid query (Proofs/IdTotalP.v): lines 2 and 7 shrink the node set, lines 3 and 4 grow the treatment set;
     the same budget is given to the transport recursion (Alg/Trso.v), which follows ID step by step when there is no source domain *)
  Definition fuel_for (g : mg nat) : nat := let n := List.length (nodes g) in n * (n + 1) + 5 * n + 9.

  (* identify_outcomes(graph, treatments, outcomes): Identification with the joint over the graph's nodes *)
  Definition identify_outcomes (g : mg nat) (X Y : list nat) : id_result :=
    identify (fuel_for g) (mkIdent g X Y (prob_safe None (Vs (nodes g)) None [] None)).
End ID.
