(* Model of algorithm/identify/cg.py: parallel-worlds graph and counterfactual graph (Shpitser & Pearl,
   make-cg). Graph nodes are variables (plain or counterfactual). The loops over the set of worlds visit it in
   an unspecified order: [make_counterfactual_graph] takes that order as an argument and
   [make_counterfactual_graph_all] returns the results for every order. *)
From Coq Require Import List Bool Arith.
From Y0 Require Import Base.ListSet Graph.Closure Graph.MixedGraph Dsl.Syntax Dsl.Text Dsl.Build.
Import ListNotations.

Definition world := list (nat * bool).          (* frozenset of interventions, sorted *)
Definition event := list (var * (nat * bool)).  (* dict variable -> value (an Intervention) *)
Notation cgraph := (mg var).

Definition is_cf (v : var) : bool := match vk v with KCf => true | _ => false end.
Definition base (v : var) : var := V (vn v).

(* node @ world *)
Definition at_world (v : var) (w : world) : var := mkVar KCf (vn v) (vs v) (norm_ivs w).

Definition is_not_self_intervened (v : var) : bool :=
  negb (is_cf v) || (negb (mem (vn v, true) (vi v)) && negb (mem (vn v, false) (vi v))).

Definition node_not_in_world (w : world) (v : var) : bool :=
  negb (mem (vn v, true) w) && negb (mem (vn v, false) w).

Definition ev_get (e : event) (v : var) : option (nat * bool) := option_map snd (find (fun p => eqb (fst p) v) e).
Definition ev_has (e : event) (v : var) : bool := match ev_get e v with Some _ => true | None => false end.
Definition ev_keys (e : event) : list var := map fst e.

(* extract_interventions *)
Definition extract_interventions (vars : list var) : list world :=
  dedup (flat_map (fun v => if is_cf v then [vi v] else []) vars).

Definition und_neighbors (g : cgraph) (u : var) : list var :=
  dedup (flat_map (fun e => if eqb (fst e) u then [snd e] else if eqb (snd e) u then [fst e] else []) (bid g)).

Fixpoint unordered_pairs {T} (l : list T) : list (T * T) :=
  match l with [] => [] | x :: t => map (fun y => (x, y)) t ++ unordered_pairs t end.

Definition make_parallel_worlds_graph (g : cgraph) (worlds : list world) : cgraph :=
  let ns := nodes g in
  let cf_nb := flat_map (fun w => flat_map (fun u => flat_map (fun v =>
                 if node_not_in_world w u && node_not_in_world w v then [(at_world v w, at_world u w)] else [])
                 (und_neighbors g u)) ns) worlds in
  let f_dop := flat_map (fun w => flat_map (fun u => if node_not_in_world w u then [(u, at_world u w)] else []) ns) worlds in
  let f_dop_nb := flat_map (fun w => flat_map (fun u => flat_map (fun v =>
                 if node_not_in_world w v then [(u, at_world v w)] else []) (und_neighbors g u)) ns) worlds in
  let multi := Nat.ltb 1 (List.length worlds) in
  let cf_dop := if multi then flat_map (fun ww => flat_map (fun u =>
                 if node_not_in_world (fst ww) u && node_not_in_world (snd ww) u
                 then [(at_world u (snd ww), at_world u (fst ww))] else []) ns) (unordered_pairs worlds) else [] in
  let cf_dop_nb := if multi then flat_map (fun ww => flat_map (fun u => flat_map (fun v =>
                 if node_not_in_world (fst ww) u && node_not_in_world (snd ww) v
                 then [(at_world v (snd ww), at_world u (fst ww))] else []) (und_neighbors g u)) ns) (unordered_pairs worlds) else [] in
  let directed := dir g ++ flat_map (fun w => flat_map (fun e =>
                 if node_not_in_world w (snd e) then [(at_world (fst e) w, at_world (snd e) w)] else []) (dir g)) worlds in
  from_edges (ns ++ flat_map (fun w => map (fun n => at_world n w) ns) worlds) directed
             (bid g ++ cf_nb ++ f_dop ++ f_dop_nb ++ cf_dop ++ cf_dop_nb).

(* ---------------------------------------------------------------- Lemma 24 predicates *)

Definition has_bid_edge (g : cgraph) (a : var) : bool := existsb (fun e => eqb (fst e) a || eqb (snd e) a) (bid g).

Definition has_same_confounders (g : cgraph) (a b : var) : bool :=
  umem (a, b) (bid g) || (negb (has_bid_edge g a) && negb (has_bid_edge g b)).

Definition has_same_function (a b : var) : bool :=
  eqb (base a) (base b) && Bool.eqb (is_not_self_intervened a) (is_not_self_intervened b).

Definition nodes_attain_same_value (g : cgraph) (ev : event) (a b : var) : bool :=
  if eqb a b then true
  else if negb (has_same_confounders g a b) then false
  else if negb (eqb (base a) (base b)) then false
  else match ev_get ev a, ev_get ev b with
       | Some x, Some y => eqb x y
       | Some x, None => is_cf b && mem x (vi b)
       | None, Some y => is_cf a && mem y (vi a)
       | None, None => negb (is_cf a || is_cf b)
       end.

Definition cparents (g : cgraph) (v : var) : list var := dedup (parents g v).

Definition by_base (l : list var) : list var := stable_sort (fun a b => Nat.ltb (vn a) (vn b)) l.

Fixpoint zip_all {T} (f : T -> T -> bool) (l1 l2 : list T) : bool :=
  match l1, l2 with x :: t, y :: u => f x y && zip_all f t u | _, _ => true end.

Definition parents_attain_same_values (g : cgraph) (ev : event) (a b : var) : bool :=
  if negb (has_same_confounders g a b) then false
  else
    let pa := cparents g a in
    let pb := cparents g b in
    if set_eqb pa pb then true
    else let ra := diff pa pb in
         let rb := diff pb pa in
         if negb (Nat.eqb (List.length ra) (List.length rb)) then false
         else zip_all (nodes_attain_same_value g ev) (by_base ra) (by_base rb).

Definition value_of_self_intervention (a : var) : option (nat * bool) :=
  if negb (is_cf a) then None
  else if mem (vn a, true) (vi a) then Some (vn a, true)
  else if mem (vn a, false) (vi a) then Some (vn a, false)
  else None.

Definition nodes_have_same_domain_of_values (g : cgraph) (a b : var) : bool :=
  if negb (has_same_confounders g a b) then false
  else if negb (eqb (base a) (base b)) then false
  else if is_not_self_intervened a && is_not_self_intervened b then true
  else if is_not_self_intervened a || is_not_self_intervened b then false
  else eqb (value_of_self_intervention a) (value_of_self_intervention b).

Definition is_pw_equivalent (g : cgraph) (ev : event) (a b : var) : bool :=
  has_same_function a b && parents_attain_same_values g ev a b && nodes_have_same_domain_of_values g a b.

Definition lemma_24_holds (g : cgraph) (ev : event) (a b : var) : bool :=
  mem a (nodes g) && mem b (nodes g) && is_pw_equivalent g ev a b.

(* ---------------------------------------------------------------- Lemma 25 merge *)

(* returns (graph, preferred, eliminated) *)
Definition merge_pw (g : cgraph) (n1 n2 : var) : cgraph * var * var :=
  let '(n1, n2) :=
    if is_cf n1 && negb (is_cf n2) then (n2, n1)
    else if negb (is_cf n1) && is_cf n2 then (n1, n2)
    else if var_sort_lt n2 n1 then (n2, n1) else (n1, n2) in
  let directed := filter (fun e => negb (eqb (fst e) n2) && negb (eqb (snd e) n2)) (dir g)
                  ++ flat_map (fun e => if eqb (fst e) n2 then [(n1, snd e)] else []) (dir g) in
  let undirected := filter (fun e => negb (eqb (fst e) n2) && negb (eqb (snd e) n2)) (bid g)
                  ++ flat_map (fun e => if eqb (fst e) n2 && negb (eqb (snd e) n1) then [(n1, snd e)] else []) (bid g)
                  ++ flat_map (fun e => if eqb (snd e) n2 && negb (eqb (fst e) n1) then [(fst e, n1)] else []) (bid g) in
  let p1 := parents g n1 in
  let p2_not_1 := filter (fun u => negb (mem u p1)) (parents g n2) in
  (from_edges (filter (fun n => negb (eqb n n2) && negb (mem n p2_not_1)) (nodes g)) (dedup directed) undirected, n1, n2).

Definition is_inconsistent (ev : event) (a b : var) : bool :=
  match ev_get ev a, ev_get ev b with Some x, Some y => negb (eqb x y) | _, _ => false end.

(* dict semantics: event[preferred] = event[eliminated]; del event[eliminated] *)
Definition update_event (ev : event) (preferred eliminated : var) : event :=
  match ev_get ev eliminated with
  | None => ev
  | Some x =>
      let ev1 := if ev_has ev preferred then map (fun p => if eqb (fst p) preferred then (preferred, x) else p) ev
                 else ev ++ [(preferred, x)] in
      filter (fun p => negb (eqb (fst p) eliminated)) ev1
  end.

(* ---------------------------------------------------------------- the driver *)

Definition cg_state := (cgraph * event * bool)%type.   (* bool: an inconsistency was found (return value None) *)

Definition try_merge (st : cg_state) (a b : var) (check_pair : bool) : cg_state :=
  let '(g, ev, stop) := st in
  if stop then st
  else if lemma_24_holds g ev a b then
    let '(g', pref, elim) := merge_pw g a b in
    if (if check_pair then is_inconsistent ev a b else is_inconsistent ev pref elim) then (g', ev, true)
    else (g', update_event ev pref elim, false)
  else st.

(* repaired code: event variables intervened on themselves are settled by the axiom of effectiveness first *)
Definition own_interventions (p : var * (nat * bool)) : list (nat * bool) :=
  if is_cf (fst p) then filter (fun i => Nat.eqb (fst i) (vn (fst p))) (vi (fst p)) else [].
Definition effective_event (ev : event) : event := filter (fun p => is_nil (own_interventions p)) ev.
Definition violates_effectiveness (ev : event) : bool :=
  existsb (fun p => existsb (fun i => negb (Bool.eqb (snd i) (snd (snd p)))) (own_interventions p)) ev.

Definition make_counterfactual_graph (g : cgraph) (ev0 : event) (topo : list var) (worlds : list world) : cgraph * option event :=
  let ev := effective_event ev0 in
  let pw := make_parallel_worlds_graph g worlds in
  let st0 : cg_state := (from_edges (nodes pw) (dir pw) (bid pw), ev, false) in
  let step (st : cg_state) (node : var) : cg_state :=
      let st1 := fold_left (fun s w => try_merge s node (at_world node w) false) worlds st in
      if Nat.ltb 1 (List.length worlds)
      then fold_left (fun s ww => try_merge s (at_world node (fst ww)) (at_world node (snd ww)) true) (unordered_pairs worlds) st1
      else st1 in
  if violates_effectiveness ev0 then (fst (fst st0), None) else
  let '(cf, ev', stop) := fold_left step topo st0 in
  if stop then (cf, None)
  else (subgraph cf (ancestors_inclusive cf (ev_keys ev')), Some ev').

Fixpoint permutations {T} (l : list T) (fuel : nat) : list (list T) :=
  match fuel with
  | 0 => [l]
  | S f =>
      match l with
      | [] => [[]]
      | _ => flat_map (fun i => match nth_error l i with
                                | Some x => map (cons x) (permutations (firstn i l ++ skipn (S i) l) f)
                                | None => []
                                end) (seq 0 (List.length l))
      end
  end.

Definition make_counterfactual_graph_all (g : cgraph) (ev : event) (topo : list var) : list (cgraph * option event) :=
  let worlds := extract_interventions (ev_keys (effective_event ev)) in
  map (make_counterfactual_graph g ev topo) (permutations worlds (List.length worlds)).
