(* Model of algorithm/tian_id.py: Tian & Pearl's IDENTIFY and the c-factor routines (Lemmas 1, 3, 4). *)
From Coq Require Import List Bool Arith.
From Y0 Require Import Base.ListSet Graph.Closure Graph.MixedGraph Dsl.Syntax Dsl.Text Dsl.Build Alg.Id.
Import ListNotations.

Inductive tian_result := TOk (e : expr) | TFail | TExc (code : nat).
Definition NotImplementedError := 10.

Definition is_spf (e : expr) : bool := match e with ESum _ _ | EProd _ | EFrac _ _ => true | _ => false end.
Definition is_prob (e : expr) : bool := match e with EProb _ _ _ => true | _ => false end.

(* compute_ancestral_set_q_value (Lemma 3) *)
Definition compute_ancestral_set_q_value (A T : list nat) (q : expr) (topo : list nat) : expr :=
  sum_safe q (Vs (filter (fun v => mem v (diff T A)) topo)) false.

(* compute_q_value_of_variables_with_low_topological_ordering_indices *)
Definition q_low (vertex : nat) (q : expr) (topo : list nat) : expr :=
  match index_nat vertex topo with
  | None => EErr KeyError
  | Some i => sum_safe q (Vs (skipn (S i) topo)) false
  end.

(* Lemma 4(ii): compute_c_factor_marginalizing_over_topological_successors *)
Definition c_factor_marginalizing (district : list nat) (q : expr) (topo : list nat) : expr :=
  prod_safe (map (fun v =>
    match index_nat v topo with
    | None => EErr ValueError
    | Some 0 => q_low v q topo
    | Some (S j) => mk_frac (q_low v q topo) (q_low (nth j topo 0) q topo)    (* raw Fraction(cur, prev) *)
    end) district).

(* Lemma 1: compute_c_factor_conditioning_on_topological_predecessors.
   For a PopulationProbability the parents tuple is built from a set: its order is unspecified (the
   correspondence compares such parents as a set; here they are kept sorted). *)
Definition c_factor_conditioning (district : list nat) (q : expr) (topo : list nat) : expr :=
  match q with
  | EProb pop _ pa =>
      if is_nil district || is_nil topo then EErr TypeError
      else if negb (subset district topo) then EErr KeyError
      else prod_safe (map (fun v =>
             match index_nat v topo with
             | None => EErr KeyError
             | Some i => prob_raw pop [V v] (upgrade_ordering (pa ++ Vs (firstn i topo)))
             end) district)
  | _ => EErr TypeError
  end.

Definition compute_c_factor (district sub_vars : list nat) (q : expr) (graph_topo : list nat) : expr :=
  let sub_topo := filter (fun v => mem v sub_vars) graph_topo in
  if is_spf q then c_factor_marginalizing district q sub_topo
  else if is_prob q then c_factor_conditioning district q sub_topo
  else EErr TypeError.

Fixpoint identify_district_variables (fuel : nat) (g : mg nat) (C T : list nat) (q : expr) (topo : list nat) : tian_result :=
  match fuel with
  | 0 => TExc OutOfFuel
  | S f =>
      if negb (subset C T) then TExc KeyError
      else if negb (subset T topo) then TExc KeyError
      else if Nat.ltb 1 (List.length (districts (subgraph g T))) then TExc TypeError
      else if negb (is_spf q || is_prob q) then TExc TypeError
      else
        let A := ancestors_inclusive (subgraph g T) C in
        let ordered_A := filter (fun v => mem v A) topo in
        if set_eqb A C then
          match compute_ancestral_set_q_value A T q topo with EErr k => TExc k | e => TOk e end
        else if set_eqb A T then TFail
        else if subset C A && subset A T then
          match find (fun D => subset C D) (districts (subgraph g ordered_A)) with
          | None => TExc ValueError
          | Some T' =>
              let qA := if is_spf q then compute_ancestral_set_q_value A T q topo
                        else match q with
                             | EProb pop _ pa => prob_safe pop [] (Some (upgrade_ordering (Vs ordered_A), upgrade_ordering pa)) [] None
                             | _ => EErr TypeError
                             end in
              match compute_c_factor T' A qA topo with
              | EErr k => TExc k
              | qT' => identify_district_variables f g C T' qT' topo
              end
          end
        else TExc NotImplementedError
  end.
