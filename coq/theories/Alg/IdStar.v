(* Model of algorithm/identify/id_star.py (ID-star) and idc_star.py (IDC-star). Results are lists: every outcome over the
   unspecified visiting orders of the world set (make-cg) and of the condition dict (IDC-star line 4). *)
From Coq Require Import List Bool Arith.
From Y0 Require Import Base.ListSet Graph.Closure Graph.MixedGraph Graph.DSep Graph.CondInd
  Dsl.Syntax Dsl.Text Dsl.Build Alg.Id Alg.Cg.
Import ListNotations.

Definition NetworkXPointless := 13.

Definition violates_axiom_of_effectiveness (ev : event) : bool :=
  existsb (fun p => is_cf (fst p) && existsb (fun i => Nat.eqb (fst i) (fst (snd p)) && negb (Bool.eqb (snd i) (snd (snd p)))) (vi (fst p))) ev.

Definition is_redundant_counterfactual (v : var) (value : nat * bool) : bool :=
  is_cf v && existsb (fun i => Nat.eqb (fst i) (fst value) && Bool.eqb (snd i) (snd value)) (vi v).

Definition remove_event_tautologies (ev : event) : event :=
  filter (fun p => negb (is_redundant_counterfactual (fst p) (snd p))) ev.

Definition get_cf_interventions (ns : list var) : list (nat * bool) :=
  dedup (flat_map (fun n => if is_cf n then vi n else []) ns).

Definition get_free_variables (cf : cgraph) (ev : event) : list var :=
  diff (dedup (map base (filter is_not_self_intervened (nodes cf)))) (map base (ev_keys ev)).

Definition get_node_event (n : var) (ev : event) : nat * bool :=
  match ev_get ev n with Some x => x | None => (vn n, false) end.

(* dict comprehension: a later node with the same key overwrites the value, the key keeps its first position *)
Definition dict_set {K T} `{EqB K} (d : list (K * T)) (k : K) (v : T) : list (K * T) :=
  if existsb (fun p => eqb (fst p) k) d then map (fun p => if eqb (fst p) k then (k, v) else p) d else d ++ [(k, v)].

(* get_events_of_district: {node.intervene(pillow): value}. The district is a frozenset: when two of its nodes get the
   same key (a variable and one of its counterfactual copies) with different values, the value that survives depends on
   the iteration order - the model returns every possibility. *)
Definition district_items (cf : cgraph) (district : list var) (ev : event) : option (list (var * (nat * bool))) :=
  let pillow := get_markov_pillow cf district in
  map_opt (fun n =>
    let key := match pillow with
               | [] => Some (base n)
               | _ => var_intervene (base n) pillow
               end in
    option_map (fun k => (k, get_node_event n ev)) key) district.

Fixpoint choices {T} (alts : list (list T)) : list (list T) :=
  match alts with
  | [] => [[]]
  | a :: t => flat_map (fun x => map (cons x) (choices t)) a
  end.

Definition get_events_of_district_all (cf : cgraph) (district : list var) (ev : event) : option (list event) :=
  match district_items cf district ev with
  | None => None
  | Some items =>
      let keys := dedup (map fst items) in
      let cands (k : var) := dedup (map snd (filter (fun p => eqb (fst p) k) items)) in
      Some (map (fun vals => combine keys vals) (choices (map cands keys)))
  end.

Definition get_conflicts (cf : cgraph) (ev : event) : bool :=
  let interventions := get_cf_interventions (nodes cf) in
  let evidence := dedup (map snd ev ++ get_cf_interventions (ev_keys ev)) in
  existsb (fun i => existsb (fun e => Nat.eqb (fst i) (fst e) && negb (Bool.eqb (snd i) (snd e))) evidence) interventions.

Definition id_star_line_9 (cf : cgraph) : expr :=
  let interventions := get_cf_interventions (nodes cf) in
  let bases := map base (nodes cf) in
  match interventions with
  | [] => prob_safe None bases None [] None
  | _ => prob_safe None bases None [] (Some (map (fun i => mkVar KIv (fst i) (Some (snd i)) []) interventions))
  end.

Definition ev_eqb (a b : event) : bool := set_eqb a b.

Section IDSTAR.
  Variable g : mg nat.
  Variable topo : list nat.      (* graph.topological_sort() of the input graph (oracle) *)

  Definition gv : cgraph := MG (map V (nodes g)) (map (fun e => (V (fst e), V (snd e))) (dir g))
                               (map (fun e => (V (fst e), V (snd e))) (bid g)).

  (* cartesian combination of alternative results *)
  Fixpoint combine (alts : list (list id_result)) : list (list id_result) :=
    match alts with
    | [] => [[]]
    | a :: t => flat_map (fun x => map (cons x) (combine t)) a
    end.

  Fixpoint id_star (fuel : nat) (ev : event) : list id_result :=
    match fuel with
    | 0 => [IdCrash OutOfFuel]
    | S f =>
      match ev with
      | [] => [IdOk EOne]
      | _ =>
        if violates_axiom_of_effectiveness ev then [IdOk EZero]
        else
          let reduced := remove_event_tautologies ev in
          if negb (Nat.eqb (List.length reduced) (List.length ev)) then id_star f reduced
          else
            (flat_map (fun out =>
              match snd out with
              | None => [IdOk EZero]
              | Some new_ev =>
                  let cf := fst out in
                  let keep := filter is_not_self_intervened (nodes cf) in
                  let sub := subgraph cf keep in
                  match nodes sub with
                  | [] => [IdCrash NetworkXPointless]
                  | _ =>
                    if negb (Nat.eqb (List.length (districts sub)) 1) then
                      (* line 6 *)
                      let summand := get_free_variables cf new_ev in
                      let evs := map (fun d => get_events_of_district_all cf d new_ev) (districts sub) in
                      if existsb (fun e => match e with None => true | _ => false end) evs then [IdCrash ValueError]
                      else if Nat.leb (List.length evs) 1 then [IdCrash RuntimeError]
                      else
                        let subresults := map (fun e => match e with Some alts => flat_map (id_star f) alts | None => [] end) evs in
                        map (fun rs =>
                               match find (fun r => match r with IdCrash _ => true | _ => false end) rs with
                               | Some c => c
                               | None =>
                                   if existsb (fun r => match r with IdUnident => true | _ => false end) rs then IdUnident
                                   else match sum_safe (prod_safe (flat_map (fun r => match r with IdOk e => [e] | _ => [] end) rs)) summand false with
                                        | EErr k => IdCrash k
                                        | e => IdOk e
                                        end
                               end) (combine subresults)
                    else if get_conflicts sub new_ev then [IdUnident]
                    else [match id_star_line_9 sub with EErr k => IdCrash k | e => IdOk e end]
                  end
              end) (make_counterfactual_graph_all gv ev (map V topo)))
      end
    end.
End IDSTAR.

(* ---------------------------------------------------------------- IDC-star (idc_star.py) *)

Definition dict_merge (a b : event) : event := fold_left (fun acc p => dict_set acc (fst p) (snd p)) b a.

Definition get_new_outcomes_and_conditions (new_ev outcomes conditions : event) : event * event :=
  let remaining (old : event) := filter (fun p => ev_has new_ev (fst p)) old in
  let missing (old : event) := filter (fun p => negb (ev_has new_ev (fst p))) old in
  let ro := remaining outcomes in
  let rc := remaining conditions in
  let mo := missing outcomes in
  let mc := missing conditions in
  let new_keys := filter (fun p => negb (ev_has outcomes (fst p)) && negb (ev_has conditions (fst p))) new_ev in
  match mo, mc with
  | [], [] => (ro, rc)
  | _ :: _, _ :: _ =>
      (fold_left (fun acc p => if mem (base (fst p)) (map (fun q => base (fst q)) mo) then dict_set acc (fst p) (snd p) else acc) new_keys ro,
       fold_left (fun acc p => if mem (base (fst p)) (map (fun q => base (fst q)) mc) then dict_set acc (fst p) (snd p) else acc) new_keys rc)
  | _ :: _, [] => (fold_left (fun acc p => dict_set acc (fst p) (snd p)) new_keys ro, rc)
  | [], _ :: _ => (ro, fold_left (fun acc p => dict_set acc (fst p) (snd p)) new_keys rc)
  end.

Definition cf_rule_2_of_do_calculus_applies (cf : cgraph) (outcomes : list var) (condition : var) : option bool :=
  let conds := filter (fun n => negb (is_not_self_intervened n)) (nodes cf) in
  let gm := remove_out_edges cf [condition] in
  let rs := map (fun o => are_d_separated gm o condition conds) outcomes in
  if existsb (fun r => match r with DOk _ => false | _ => true end) rs then None else Some (forallb is_sep rs).

Section IDCSTAR.
  Variable g : mg nat.
  Variable topo : list nat.

  Definition conditional_on (e : expr) (conds : event) : expr := conditional e (map (fun p => base (fst p)) conds).

  Fixpoint idc_star (fuel : nat) (outcomes conditions : event) : list id_result :=
    match fuel with
    | 0 => [IdCrash OutOfFuel]
    | S f =>
      flat_map (fun r1 =>
        match r1 with
        | IdOk EZero => [IdCrash ValueError]
        | IdCrash k => [IdCrash k]
        | _ =>
          let events := dict_merge outcomes conditions in
          flat_map (fun out =>
            match snd out with
            | None => [IdOk EZero]
            | Some new_ev =>
                let cf := fst out in
                let '(no, nc) := get_new_outcomes_and_conditions new_ev outcomes conditions in
                (* the first condition (dict order) to which rule 2 applies *)
                let fix scan (todo : event) : list id_result :=
                    match todo with
                    | [] =>
                        map (fun r => match r with
                                      | IdOk e => match conditions with
                                                  | [] => IdOk e
                                                  | _ => if is_zero e then IdOk e   (* repaired: an impossible joint stays Zero *)
                                                         else match conditional_on e conditions with EErr k => IdCrash k | e' => IdOk e' end
                                                  end
                                      | r' => r'
                                      end) (id_star g topo (S (4 * List.length (nodes g))) (dict_merge no nc))
                    | c :: rest =>
                        match cf_rule_2_of_do_calculus_applies cf (ev_keys no) (fst c) with
                        | None => [IdCrash KeyError]
                        | Some false => scan rest
                        | Some true =>
                            if negb (forallb (fun o => mem (fst o) (nodes cf)) no) then [IdCrash 12]
                            else
                            let no' := map_opt (fun o =>
                                         if mem (fst c) (ancestors_inclusive cf [fst o])
                                         then option_map (fun k => (k, snd o)) (var_intervene (fst o) [fst c])
                                         else Some o) no in
                            match no' with
                            | None => [IdCrash ValueError]
                            | Some no'' =>
                                let merged := fold_left (fun acc p => dict_set acc (fst p) (snd p)) no'' [] in
                                idc_star f merged (filter (fun p => negb (eqb (fst p) (fst c))) nc)
                            end
                        end
                    end in
                (* the conditions that kept their key come first, in the caller's order; the relabelled ones were added by iterating over a SET of
                   keys (new_event_keys): every order of those is a possible run *)
                let kept := List.length (filter (fun p => ev_has new_ev (fst p)) conditions) in
                flat_map (fun added => scan (firstn kept nc ++ added)) (permutations (skipn kept nc) (List.length (skipn kept nc)))
            end) (make_counterfactual_graph_all (gv g) events (map V topo))
        end) (id_star g topo (S (4 * List.length (nodes g))) conditions)
    end.
End IDCSTAR.
