(* C06: the vocabulary predicates on estimands. *)
From Coq Require Import List Bool Arith.
From Y0 Require Import Base.ListSet Dsl.Syntax Dsl.Build.
Import ListNotations.

Definition plain_var (N : list nat) (v : var) : bool :=
  eqb (vk v) KVar && eqb (vs v) None && is_nil (vi v) && mem (vn v) N.

(* only observational probability terms over the nodes N: no population tag, subscript, counterfactual, value mark, Q factor *)
Fixpoint plain_obs (N : list nat) (e : expr) : bool :=
  match e with
  | EProb None ch pa => forallb (plain_var N) ch && forallb (plain_var N) pa
  | EProb (Some _) _ _ => false
  | EProd es => forallb (plain_obs N) es
  | ESum e' rs => plain_obs N e' && forallb (plain_var N) rs
  | EFrac n d => plain_obs N n && plain_obs N d
  | EOne | EZero => true
  | EQ _ _ => false
  | EErr _ => false
  end.

(* a variable of a (possibly interventional) single-world term: plain name in N, no value mark, subscripts = ivs *)
Definition world_var (N : list nat) (ivs : list (nat * bool)) (v : var) : bool :=
  mem (vn v) N && eqb (vs v) None && eqb (vi v) ivs && (match ivs with [] => eqb (vk v) KVar | _ => eqb (vk v) KCf end).

Definition atom_world (ch pa : list var) : list (nat * bool) := match ch with c :: _ => vi c | [] => [] end.

(* transport vocabulary: target-observational terms, or terms of a declared source domain under a subset of its
   experimental variables; never a name outside N (in particular no transport node) *)
Fixpoint trso_vocab (N : list nat) (target : nat) (doms : list (nat * list nat)) (e : expr) : bool :=
  match e with
  | EProb (Some p) ch pa =>
      let w := atom_world ch pa in
      forallb (world_var N w) ch && forallb (world_var N w) pa && eqb (vk p) KVar &&
      (if Nat.eqb (vn p) target then is_nil w
       else match find (fun d => Nat.eqb (fst d) (vn p)) doms with
            | Some d => forallb (fun i => mem (fst i) (snd d) && negb (snd i)) w
            | None => false
            end)
  | EProb None _ _ => false
  | EProd es => forallb (trso_vocab N target doms) es
  | ESum e' rs => trso_vocab N target doms e' && forallb (plain_var N) rs
  | EFrac n d => trso_vocab N target doms n && trso_vocab N target doms d
  | EOne | EZero => true
  | _ => false
  end.

(* ID-star / IDC-star: every probability term is single-world *)
Fixpoint single_world (e : expr) : bool :=
  match e with
  | EProb _ ch pa => let w := atom_world ch pa in forallb (fun v => eqb (vi v) w) ch && forallb (fun v => eqb (vi v) w) pa
  | EProd es => forallb single_world es
  | ESum e' _ => single_world e'
  | EFrac n d => single_world n && single_world d
  | EOne | EZero => true
  | _ => false
  end.
