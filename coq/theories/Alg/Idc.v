(* Model of algorithm/identify/id_c.py (IDC). The loop "for condition in identification.conditions" visits a
   set in an unspecified order and commits to the first condition to which rule 2 applies: the model returns
   every result reachable under some visiting order. *)
From Coq Require Import List Bool Arith.
From Y0 Require Import Base.ListSet Graph.Closure Graph.MixedGraph Graph.DSep Graph.CondInd Dsl.Syntax Dsl.Text Dsl.Build Alg.Id.
Import ListNotations.

Definition rule_2_of_do_calculus_applies (g : mg nat) (X Y Z : list nat) (z : nat) : bool :=
  let conds := union X (diff Z [z]) in
  let gm := remove_out_edges (remove_in_edges g X) [z] in
  forallb (fun y => is_sep (are_d_separated gm y z conds)) Y.

Section IDC.
  Variable old : bool.
  Variable topo : mg nat -> option (list nat).

  Definition idc_final (g : mg nat) (X Y Z : list nat) : id_result :=
    match identify old topo (fuel_for g) (mkIdent g X (union Y Z) (prob_safe None (Vs (nodes g)) None [] None)) with
    | IdOk e => IdOk (normalize_marginalize e (Vs Y))
    | r => r
    end.

  Fixpoint idc_all (fuel : nat) (g : mg nat) (X Y Z : list nat) : list id_result :=
    match fuel with
    | 0 => [IdCrash OutOfFuel]
    | S f =>
        match filter (rule_2_of_do_calculus_applies g X Y Z) Z with
        | [] => [idc_final g X Y Z]
        | zs => flat_map (fun z => idc_all f g (union X [z]) Y (diff Z [z])) zs
        end
    end.

  Definition idc (g : mg nat) (X Y Z : list nat) : list id_result := idc_all (S (List.length Z)) g X Y Z.
End IDC.
