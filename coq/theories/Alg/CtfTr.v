(* Model of counterfactual_transport/api.py: Algorithm 4 (sigma-TR per district), Algorithm 2 (ctfTRu) and
   Algorithm 3 (ctfTR). Inputs are assumed to have passed the input validation (the harness only generates
   such inputs); the output validation of Algorithm 3 line 4 is modelled. *)
From Coq Require Import List Bool Arith.
From Y0 Require Import Base.ListSet Graph.Closure Graph.MixedGraph Dsl.Syntax Dsl.Text Dsl.Build
  Alg.Id Alg.Tian Alg.Trso Alg.Cg Alg.CtfAnc.
Import ListNotations.

Record cft_domain := mkDom { dgraph : mg nat; dtopo : list nat; dpolicy : list nat; dprob : expr }.

Inductive cft_result := CftOk (e : expr) (ev : option cevent) | CftFail | CftExc (code : nat).

Definition get_district_of (g : mg nat) (v : nat) : option (list nat) := find (mem v) (districts g).

(* Algorithm 4: transport_district_intervening_on_parents *)
Definition transport_district (district : list nat) (domains : list cft_domain) : tian_result :=
  fold_left (fun acc d =>
    match acc with
    | TFail =>
        if is_nil (inter district (dpolicy d)) && negb (existsb (fun v => mem (transport_variable v) (nodes (dgraph d))) district) then
          let g := dgraph d in
          let vars := get_regular_nodes g in
          match map_opt (get_district_of g) district with
          | None => TExc KeyError
          | Some ds =>
              let dgd := dedup (concat ds) in
              if negb (forallb (set_eqb dgd) ds) then TExc ValueError
              else match compute_c_factor dgd vars (dprob d) (dtopo d) with
                   | EErr k => TExc k
                   | q => identify_district_variables (S (List.length dgd)) g district dgd q (dtopo d)
                   end
          end
        else TFail
    | r => r
    end) domains TFail.

(* _counterfactual_factor_is_inconsistent *)
Definition factor_is_inconsistent (factor : cevent) : bool :=
  let names := dedup (map (fun p => vn (fst p)) factor) in
  let iv_names_in := inter (dedup (flat_map (fun p => if is_cf (fst p) then map fst (vi (fst p)) else []) factor)) names in
  let dict1 := flat_map (fun p =>
                 (match snd p with Some x => if mem (vn (fst p)) iv_names_in then [(vn (fst p), x)] else [] | None => [] end)
                 ++ (if is_cf (fst p) then flat_map (fun i => if mem (fst i) iv_names_in then [(fst i, i)] else []) (vi (fst p)) else [])) factor in
  let dict2 := flat_map (fun p => if is_cf (fst p) then map (fun i => (fst i, i)) (vi (fst p)) else []) factor in
  let clash (d : list (nat * (nat * bool))) :=
      existsb (fun a => existsb (fun b => Nat.eqb (fst a) (fst b) && negb (eqb (snd a) (snd b))) d) d in
  clash dict1 || clash dict2.

Definition ev_lookup (ev : cevent) (v : var) : option (option (nat * bool)) :=
  (* dict(event): the last entry for a key wins *)
  option_map snd (find (fun p => eqb (fst p) v) (rev ev)).

Definition transport_unconditional (event : cevent) (target : mg nat) (domains : list cft_domain) : cft_result :=
  match simplify event target with
  | SExc k => CftExc k
  | SNone => CftOk EZero None
  | SEvent simplified =>
      match map_opt (fun p => get_ancestors_of_counterfactual (fst p) target) simplified with
      | None => CftExc 12
      | Some ancs =>
          let anc := dedup (concat ancs) in
          let with_values : cevent := map (fun v => (v, match ev_lookup simplified v with Some x => x | None => None end)) anc in
          let cf_form : cevent := dedup (map (fun p => (convert_var_to_ctf_factor_form (fst p) target, snd p)) with_values) in
          let sub := subgraph target (dedup (map vn anc)) in
          if negb (is_counterfactual_factor_form (map fst cf_form) sub) then CftExc ValueError
          else
            let factors := flat_map (fun D => match filter (fun p => mem (vn (fst p)) D) cf_form with [] => [] | f => [f] end) (districts sub) in
            if existsb factor_is_inconsistent factors then CftFail
            else
              let qs := map (fun f => transport_district (dedup (map (fun p => vn (fst p)) f)) domains) factors in
              match find (fun r => match r with TExc _ => true | _ => false end) qs with
              | Some (TExc k) => if existsb (fun r => match r with TFail => true | _ => false end) qs then CftFail (* order-dependent: FAIL may come first *) else CftExc k
              | _ =>
                  if existsb (fun r => match r with TFail => true | _ => false end) qs then CftFail
                  else
                    let excl := dedup (map (fun p => vn (fst p)) (filter (fun p => negb (mem p simplified)) with_values)) in
                    match sum_safe (prod_safe (flat_map (fun r => match r with TOk e => [e] | _ => [] end) qs)) (Vs excl) false with
                    | EErr k => CftExc k
                    | e => CftOk e (Some simplified)
                    end
              end
      end
  end.

(* ---------------------------------------------------------------- Algorithm 3 *)

Definition minimize_pairs (l : list (var * (nat * bool))) (g : mg nat) : list (var * (nat * bool)) :=
  map (fun p => (match minimize_counterfactual (fst p) g with Some v => v | None => fst p end, snd p)) l.

Definition transport_conditional (outcomes0 conditions0 : list (var * (nat * bool))) (target : mg nat) (domains : list cft_domain) : cft_result :=
  (* repaired code: outcomes and conditions are minimised before they are looked up in the ancestral components *)
  let outcomes := minimize_pairs outcomes0 target in
  let conditions := minimize_pairs conditions0 target in
  let cond_vars := dedup (map fst conditions) in
  let out_vars := dedup (map fst outcomes) in
  let all_vars := union cond_vars out_vars in
  match get_ancestral_components cond_vars all_vars target with
  | None => CftExc 12
  | Some comps =>
      let comp_vars := dedup (concat (filter (fun c => existsb (fun v => mem v out_vars) c) comps)) in
      let with_values : cevent :=
          flat_map (fun v => match filter (fun p => eqb (fst p) v) outcomes with
                             | [] => [(v, None)]
                             | ps => map (fun p => (v, Some (snd p))) (dedup ps)
                             end) comp_vars in
      let query : cevent := map (fun p => (convert_var_to_ctf_factor_form (fst p) target, snd p)) with_values in
      let comp_names := dedup (map vn comp_vars) in
      let oc_names := dedup (map (fun p => vn (fst p)) (outcomes ++ conditions)) in
      let c_names := dedup (map (fun p => vn (fst p)) conditions) in
      if forallb (fun p => match snd p with None => true | _ => false end) query then CftExc ValueError else
      match transport_unconditional query target domains with
      | CftOk q None => CftOk q None
      | CftOk q (Some simplified) =>
          let no_values := diff comp_names oc_names in
          let num := sum_safe q (Vs no_values) false in
          let den := sum_safe q (Vs (diff comp_names c_names)) false in
          match mk_frac num den with
          | EErr k => CftExc k
          | e =>
              let result_event : cevent := map (fun p => (V (vn (fst p)), Some (snd p))) (outcomes ++ conditions) in
              (* output validation *)
              let named := filter (fun p => match snd p with None => false | _ => true end) simplified in
              let values_of (n : nat) := map snd (filter (fun p => Nat.eqb (vn (fst p)) n) (outcomes ++ conditions)) in
              if existsb (fun p => negb (mem (vn (fst p)) oc_names)) named then CftExc KeyError
              else if existsb (fun p => match snd p with Some x => negb (mem x (values_of (vn (fst p)))) | None => false end) named then CftExc KeyError
              else
                let expr_vars := dedup (iter_variables e) in
                let dom_vars := dedup (flat_map (fun d => iter_variables (dprob d)) domains) in
                if negb (forallb (fun v => mem v (Vs no_values) || mem v (Vs oc_names) || mem v dom_vars) expr_vars) then CftExc KeyError
                else if negb (forallb (fun p => mem (fst p) expr_vars) result_event) then CftExc KeyError
                else CftOk e (Some result_event)
          end
      | r => r
      end
  end.
