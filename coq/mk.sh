#!/bin/sh
# regenerate the Makefile over every .v file and build (development helper; vcheck setup does the same)
cd "$(dirname "$0")" && coq_makefile -f _CoqProject -o Makefile $(find theories -name '*.v' | sort) >/dev/null 2>&1 && timeout ${T:-1800} make -j16 2>&1 | grep -v "conda\|^COQDEP\|^make" | tail -${N:-25}
